#!/usr/bin/python3
"""Confirms a sub-agent's seeded change and files it under /verif/seeded/<id>/.

  ingest_seed.py <id> <property>   (deliverables in /tmp/seed-out/<id>, scratch worktree /tmp/seed-<id>)

Confirms: patch applies to HEAD; the repository's test suite still builds and
passes with it; the demonstration fails with the change and passes without.
"""
import json
import os
import shutil
import subprocess
import sys

sid, prop = sys.argv[1], sys.argv[2]
src = "/tmp/seed-out/" + sid
wt = "/tmp/seed-" + sid
dst = "/verif/seeded/" + sid


def sh(cmd, timeout=3600):
    p = subprocess.run(cmd, shell=True, stdout=subprocess.PIPE, stderr=subprocess.STDOUT, text=True, timeout=timeout)
    return p.returncode, p.stdout


if not os.path.isdir(wt):
    sh("git -C /repo worktree add --detach %s HEAD" % wt)
sh("git -C %s checkout -- . && git -C %s clean -fdxq" % (wt, wt))
ran = []
rc, out = sh("git -C %s apply --check %s/patch.diff" % (wt, src))
ran.append(("git apply --check patch.diff", rc))
if rc != 0:
    print("patch does not apply", out)
    sys.exit(1)
# unchanged: demo must pass
rc_u, out_u = sh("cd %s && sh ./build.sh" % src)
ran.append(("build.sh on unchanged headers", rc_u))
sh("git -C %s apply %s/patch.diff" % (wt, src))
rc_c, out_c = sh("cd %s && sh ./build.sh" % src)
ran.append(("build.sh on changed headers", rc_c))
rc_b, out_b = sh("cmake -G Ninja -B %s/_build -S %s >/dev/null 2>&1 && cmake --build %s/_build 2>&1 | tail -3 && %s/_build/tests/test 2>&1 | tail -3" % (wt, wt, wt, wt))
suite_ok = rc_b == 0 and "No errors detected" in out_b
ran.append(("cmake build + tests/test with the change", 0 if suite_ok else 1))
sh("git -C %s checkout -- . && rm -rf %s/_build" % (wt, wt))
ok = rc_u == 0 and rc_c != 0 and suite_ok
print("%s: demo unchanged rc=%d, changed rc=%d, suite %s => %s" % (sid, rc_u, rc_c, "passes" if suite_ok else "FAILS", "CONFIRMED" if ok else "REJECTED"))
if not ok:
    print(out_u[-1500:] if rc_u != 0 else "", out_c[-500:] if rc_c == 0 else "", out_b[-1500:] if not suite_ok else "")
    sys.exit(1)
os.makedirs(dst, exist_ok=True)
for f in os.listdir(src):
    p = os.path.join(src, f)
    if os.path.isfile(p) and (f.endswith((".cpp", ".sh", ".md", ".diff", ".h")) ) and os.path.getsize(p) < 200000:
        shutil.copy(p, os.path.join(dst, f))
needs = ""
try:
    notes = open(os.path.join(src, "NOTES.md")).read()
except OSError:
    notes = ""
meta = {"id": sid, "property": prop, "source": "independent sub-agent given only the property text and a scratch worktree",
        "base_commit": subprocess.run(["git", "-C", "/repo", "rev-parse", "HEAD"], stdout=subprocess.PIPE, text=True).stdout.strip(),
        "needs_to_manifest": "see NOTES.md", "confirmed": {"steps": [{"cmd": c, "exit": r} for c, r in ran],
        "demo_unchanged_exit": rc_u, "demo_changed_exit": rc_c, "suite_passes_with_change": suite_ok},
        "note": "build.sh refers to the scratch worktree /tmp/seed-%s (removed after confirmation); recreate it with `git -C /repo worktree add --detach /tmp/seed-%s %s` to re-run the demonstration" % (sid, sid, "HEAD")}
json.dump(meta, open(os.path.join(dst, "meta.json"), "w"), indent=1)
subprocess.run(["git", "-C", "/repo", "worktree", "remove", "--force", wt])
shutil.rmtree(src, ignore_errors=True)
