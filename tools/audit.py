#!/usr/bin/python3
"""Sensitivity / false-alarm audit of the checks themselves (DESIGN §2.8).

  audit.py mutants [--matrix] [--suite] [name ...]   catalogue in /verif/mutants
  audit.py seeded  [--matrix] [name ...]              sub-agent changes in /verif/seeded/<id>/patch.diff
  audit.py benign  [name ...]                         behaviour-preserving sub-agent changes in /verif/benign/<id>/patch.diff:
                                                      every check must stay silent
  audit.py seeds N                                    false-alarm audit: every quick check with N base seeds

Every patch is applied to a scratch copy of the repository outside /repo and
/verif, the checks run with VERIF_REPO pointing at it, and the copy is removed.
Results: /verif/mutants/RESULTS.json, /verif/seeded/RESULTS.json.
"""
import json
import os
import re
import shutil
import subprocess
import sys
import tempfile
import time

VERIF = os.path.dirname(os.path.dirname(os.path.abspath(__file__)))
REPO = "/repo"
ALL = (os.environ.get("AUDIT_CHECKS") or "C03,C08,C09,C10,C14,C18").split(",")  # AUDIT_CHECKS restricts a matrix audit


def run_check(check, scratch, seed=None):
    env = dict(os.environ)
    env["VERIF_REPO"] = scratch
    env["VERIF_EVIDENCE_DIR"] = os.path.join(scratch, "_evidence")
    env["VERIF_REPLAY_DIR"] = os.path.join(scratch, "_replays")
    if seed is not None:
        env["VERIF_SEED"] = str(seed)
    t0 = time.time()
    p = subprocess.run(["/usr/bin/python3", os.path.join(VERIF, "tools", "check.py"), check, "--tier", "quick"],
                       stdout=subprocess.PIPE, stderr=subprocess.STDOUT, text=True, env=env, cwd=VERIF)
    classes = re.findall(r"class=(\S+) site=(\S+)", p.stdout)
    props = re.findall(r"^VIOLATION property=(\S+)", p.stdout, re.M)
    tail = "\n".join(p.stdout.splitlines()[-6:])
    return {"exit": p.returncode, "violations": sorted(set(props)), "classes": sorted(set("%s@%s" % c for c in classes)),
            "wall_s": round(time.time() - t0, 1), "tail": tail if p.returncode not in (0, 1) else ""}


def make_scratch(patch_path, strip=1):
    scratch = tempfile.mkdtemp(prefix="verif-audit-")
    shutil.copytree(os.path.join(REPO, "include"), os.path.join(scratch, "include"))
    p = subprocess.run(["patch", "-p%d" % strip, "-d", scratch, "-i", patch_path, "--no-backup-if-mismatch"],
                       stdout=subprocess.PIPE, stderr=subprocess.STDOUT, text=True)
    if p.returncode != 0:
        shutil.rmtree(scratch, ignore_errors=True)
        raise RuntimeError("patch does not apply: " + p.stdout[-500:])
    return scratch


def suite_passes(patch_path):
    wt = tempfile.mkdtemp(prefix="verif-suite-")
    os.rmdir(wt)
    try:
        subprocess.run(["git", "-C", REPO, "worktree", "add", "--detach", wt, "HEAD"], check=True,
                       stdout=subprocess.DEVNULL, stderr=subprocess.DEVNULL)
        p = subprocess.run(["patch", "-p1", "-d", wt, "-i", patch_path], stdout=subprocess.PIPE, stderr=subprocess.STDOUT, text=True)
        if p.returncode != 0:
            return {"applies": False}
        b = subprocess.run("cmake -G Ninja -B %s/_build -S %s >/dev/null 2>&1 && cmake --build %s/_build 2>&1 | tail -5" % (wt, wt, wt),
                           shell=True, stdout=subprocess.PIPE, stderr=subprocess.STDOUT, text=True)
        if not os.path.exists(os.path.join(wt, "_build/tests/test")):
            return {"applies": True, "builds": False, "log": b.stdout[-800:]}
        t = subprocess.run([os.path.join(wt, "_build/tests/test")], stdout=subprocess.PIPE, stderr=subprocess.STDOUT, text=True)
        return {"applies": True, "builds": True, "tests_pass": t.returncode == 0, "log": "" if t.returncode == 0 else t.stdout[-800:]}
    finally:
        subprocess.run(["git", "-C", REPO, "worktree", "remove", "--force", wt], stdout=subprocess.DEVNULL, stderr=subprocess.DEVNULL)
        shutil.rmtree(wt, ignore_errors=True)


def audit_patches(kind, names, matrix, suite):
    if kind == "mutants":
        d = os.path.join(VERIF, "mutants")
        items = sorted(f[:-6] for f in os.listdir(d) if f.endswith(".patch"))
        path_of = lambda n: os.path.join(d, n + ".patch")
    else:
        d = os.path.join(VERIF, kind)   # seeded | benign
        items = sorted(n for n in os.listdir(d) if os.path.exists(os.path.join(d, n, "patch.diff")))
        path_of = lambda n: os.path.join(d, n, "patch.diff")
    if names:
        items = [i for i in items if i in names]
    resfile = os.path.join(d, "RESULTS.json")
    try:
        results = json.load(open(resfile))
    except (OSError, ValueError):
        results = {}
    for name in items:
        patch = path_of(name)
        if kind == "mutants":
            head = open(patch).read(600)
            m = re.search(r"^# expect: (.*)$", head, re.M)
            expect = [x.strip() for x in m.group(1).split(",")] if m else []
        elif kind == "benign":
            expect = []
            matrix = True
        else:
            meta = json.load(open(os.path.join(d, name, "meta.json")))
            expect = [meta["property"]] if isinstance(meta["property"], str) else list(meta["property"])
        if expect == ["equivalent"]:
            results[name] = {"expect": expect, "equivalent": True, "checks": {}, "caught_by": [], "machinery_errors": [], "detected": None}
            json.dump(results, open(resfile, "w"), indent=1, sort_keys=True)
            continue
        try:
            scratch = make_scratch(patch)
        except RuntimeError as e:
            results[name] = {"error": str(e)}
            print(name, "ERROR", e, flush=True)
            continue
        try:
            r = {"expect": expect, "checks": {}}
            for c in (ALL if matrix else expect):
                r["checks"][c] = run_check(c, scratch)
            r["caught_by"] = sorted(c for c, v in r["checks"].items() if v["exit"] == 1 and c in v["violations"])
            r["machinery_errors"] = sorted(c for c, v in r["checks"].items() if v["exit"] not in (0, 1))
            r["detected"] = bool(set(r["caught_by"]) & set(expect))
            if suite:
                r["suite"] = suite_passes(patch)
            results[name] = r
            print("%-48s expect %-12s caught_by %-22s %s" % (name, ",".join(expect), ",".join(r["caught_by"]) or "-",
                                                             "" if not r["machinery_errors"] else "MACHINERY " + ",".join(r["machinery_errors"])), flush=True)
        finally:
            shutil.rmtree(scratch, ignore_errors=True)
        json.dump(results, open(resfile, "w"), indent=1, sort_keys=True)
    return 0


def audit_seeds(n):
    """False-alarm audit: the unchanged tree under several base seeds."""
    out = {}
    bad = 0
    scratch = tempfile.mkdtemp(prefix="verif-audit-")
    try:
        for seed in range(1000, 1000 + n):
            for c in ALL:
                env_repo = REPO
                env = dict(os.environ, VERIF_SEED=str(seed), VERIF_EVIDENCE_DIR=os.path.join(scratch, "ev"),
                           VERIF_REPLAY_DIR=os.path.join(scratch, "rp"), VERIF_REPO=env_repo)
                p = subprocess.run(["/usr/bin/python3", os.path.join(VERIF, "tools", "check.py"), c, "--tier", "quick"],
                                   stdout=subprocess.PIPE, stderr=subprocess.STDOUT, text=True, env=env, cwd=VERIF)
                out["%s/%d" % (c, seed)] = p.returncode
                if p.returncode != 0:
                    bad += 1
                    print("ALARM on unchanged tree:", c, seed, p.stdout[-800:], flush=True)
                else:
                    print("clean", c, seed, flush=True)
    finally:
        shutil.rmtree(scratch, ignore_errors=True)
    json.dump(out, open(os.path.join(VERIF, "mutants", "SEEDS.json"), "w"), indent=1, sort_keys=True)
    return 1 if bad else 0


def main():
    a = sys.argv[1:]
    if not a:
        print(__doc__)
        return 2
    if a[0] == "seeds":
        return audit_seeds(int(a[1]) if len(a) > 1 else 3)
    matrix = "--matrix" in a
    suite = "--suite" in a
    names = [x for x in a[1:] if not x.startswith("--")]
    return audit_patches(a[0], names, matrix, suite)




def report():
    """Markdown tables for DESIGN §9 from the RESULTS.json files."""
    for kind in ("mutants", "seeded"):
        f = os.path.join(VERIF, kind, "RESULTS.json")
        if not os.path.exists(f):
            continue
        r = json.load(open(f))
        print("\n#### %s\n" % kind)
        print("| change | expected | caught by (quick tier) | suite passes | classes reported by the expected check |")
        print("|---|---|---|---|---|")
        for k, v in sorted(r.items()):
            if v.get("equivalent"):
                print("| `%s` | equivalent mutant | – | – | – |" % k)
                continue
            cls = []
            for c in v.get("expect", []):
                cls += v.get("checks", {}).get(c, {}).get("classes", [])[:3]
            su = v.get("suite", {})
            print("| `%s` | %s | %s%s | %s | %s |" % (
                k, ", ".join(v.get("expect", [])), ", ".join(v.get("caught_by", [])) or "**missed**",
                (" (machinery error: %s)" % ",".join(v["machinery_errors"])) if v.get("machinery_errors") else "",
                {True: "yes", False: "NO", None: "?"}[su.get("tests_pass")] if su else "confirmed at ingestion",
                "; ".join(cls)[:160]))


if __name__ == "__main__":
    if len(sys.argv) > 1 and sys.argv[1] == "report":
        report()
        sys.exit(0)
    sys.exit(main())
