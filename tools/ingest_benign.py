#!/usr/bin/python3
"""Confirms a behaviour-preserving sub-agent change and files it under /verif/benign/<id>/.

  ingest_benign.py <id> <property>   (deliverables in /tmp/benign-out/<id>, scratch worktree /tmp/benign-<id>)

Confirms: patch applies to HEAD; the repository's suite builds and passes with it.
"""
import json, os, shutil, subprocess, sys
bid, prop = sys.argv[1], sys.argv[2]
src, wt, dst = "/tmp/benign-out/" + bid, "/tmp/benign-" + bid, "/verif/benign/" + bid
def sh(cmd):
    p = subprocess.run(cmd, shell=True, stdout=subprocess.PIPE, stderr=subprocess.STDOUT, text=True)
    return p.returncode, p.stdout
if not os.path.isdir(wt):
    sh("git -C /repo worktree add --detach %s HEAD" % wt)
sh("git -C %s checkout -- . && git -C %s clean -fdxq" % (wt, wt))
rc, out = sh("git -C %s apply %s/patch.diff" % (wt, src))
if rc != 0:
    print("patch does not apply", out); sys.exit(1)
rc, out = sh("cmake -G Ninja -B %s/_build -S %s >/dev/null 2>&1 && cmake --build %s/_build 2>&1 | tail -3 && %s/_build/tests/test 2>&1 | tail -3" % (wt, wt, wt, wt))
ok = rc == 0 and "No errors detected" in out
base = sh("git -C %s rev-parse --short HEAD" % wt)[1].strip()
sh("git -C %s checkout -- . && rm -rf %s/_build" % (wt, wt))
print(bid, "suite", "passes" if ok else "FAILS")
if not ok:
    print(out[-1500:]); sys.exit(1)
os.makedirs(dst, exist_ok=True)
for f in os.listdir(src):
    p = os.path.join(src, f)
    if os.path.isfile(p) and f.endswith((".cpp", ".sh", ".md", ".diff", ".h")) and os.path.getsize(p) < 300000:
        shutil.copy(p, os.path.join(dst, f))
json.dump({"id": bid, "written_for_property": prop,
           "kind": "behaviour-preserving change (third wave) written by an independent sub-agent given the property text and a theme; expected: no check alarms",
           "suite_passes_with_change": True, "base_commit": base}, open(os.path.join(dst, "meta.json"), "w"), indent=1)
