#!/usr/bin/python3
"""Build cache for the simulator (DESIGN §2.6).

Every flavour is built from $VERIF_REPO/include (default /repo/include, the
current working tree) plus /verif/sim. Builds are keyed by a hash of both and
cached under /verif/build/<hash>/<flavour>/, protected by a lock file, so that
every check rebuilds from the current tree while consecutive checks share the
build.
"""
import concurrent.futures
import fcntl
import hashlib
import os
import shutil
import subprocess
import sys
import time

VERIF = os.path.dirname(os.path.dirname(os.path.abspath(__file__)))
SIM = os.path.join(VERIF, "sim")
BUILD = os.path.join(VERIF, "build")

TUS = ["core", "common", "ops_basic", "ops_spline", "ops_arith", "ops_apply",
       "ops_forms", "ops_gen", "ops_shared", "plan", "run", "main"]

GUARD_WRAP = ("-Wl,--wrap=__cxa_guard_acquire,--wrap=__cxa_guard_release,--wrap=__cxa_guard_abort,"
              "--wrap=pthread_mutex_lock,--wrap=pthread_mutex_trylock,--wrap=pthread_mutex_unlock,--wrap=pthread_once,"
              "--wrap=pthread_rwlock_rdlock,--wrap=pthread_rwlock_wrlock,--wrap=pthread_rwlock_tryrdlock,"
              "--wrap=pthread_rwlock_trywrlock,--wrap=pthread_rwlock_unlock")
NEW_WRAP = "-Wl,--wrap=_Znwm,--wrap=_Znam,--wrap=_ZdlPv,--wrap=_ZdaPv,--wrap=_ZdlPvm,--wrap=_ZdaPvm"

COMMON = ["-std=c++17", "-fno-omit-frame-pointer"]

FLAVOURS = {
    # name: (compiler, cflags, cflags for core.cpp only (None = same), ldflags)
    "plain": ("g++", ["-O1", "-g1", "-D_GLIBCXX_ASSERTIONS", "-ftrivial-auto-var-init=pattern"], None, []),
    # stored spline orders 0..4 instead of 0..3 (results up to order 8): thorough tier only
    "plain4": ("g++", ["-O1", "-g1", "-D_GLIBCXX_ASSERTIONS", "-ftrivial-auto-var-init=pattern", "-DSIM_MAXORD=4"], None, []),
    "asan": ("clang++", ["-O1", "-g", "-fsanitize=address,undefined", "-fno-sanitize-recover=all",
                         "-ftrivial-auto-var-init=pattern", "-D_GLIBCXX_ASSERTIONS", "-DSIM_ASAN"], None,
             ["-fsanitize=address,undefined"]),
    "tsan": ("clang++", ["-O1", "-g", "-fsanitize=thread", "-DSIM_TSAN"],
             ["-O1", "-g", "-DSIM_TSAN"], ["-fsanitize=thread", NEW_WRAP]),
    "selfchk": ("g++", ["-O1", "-g1", "-D_GLIBCXX_ASSERTIONS", "-ftrivial-auto-var-init=pattern",
                        "-DBSPLINE_ADD_TEST_CHECKS", "-DSIM_SELFCHK"], None, []),
    "vg": ("g++", ["-O1", "-g", "-DSIM_VG"], None, [NEW_WRAP]),
}


def repo_dir():
    return os.environ.get("VERIF_REPO", "/repo")


def tree_hash():
    h = hashlib.sha256()
    inc = os.path.join(repo_dir(), "include")
    for root in (inc, SIM):
        for d, dirs, files in sorted(os.walk(root)):
            dirs.sort()
            for f in sorted(files):
                p = os.path.join(d, f)
                h.update(os.path.relpath(p, root).encode())
                with open(p, "rb") as fh:
                    h.update(fh.read())
    h.update(repr(sorted((k, v[0], v[1], v[2], v[3]) for k, v in FLAVOURS.items())).encode())
    h.update(repr(COMMON).encode())
    return h.hexdigest()[:16]


def flavour_key(flavour, exact):
    return flavour + ("-exact" if exact else "-real")


def binary_path(flavour, exact, th=None):
    th = th or tree_hash()
    return os.path.join(BUILD, th, flavour_key(flavour, exact), "sim")


def _compile(args):
    cmd, out = args
    p = subprocess.run(cmd, stdout=subprocess.PIPE, stderr=subprocess.STDOUT, text=True)
    return (p.returncode, " ".join(cmd), p.stdout)


def prune(keep_hash):
    """Keep the build of the current tree and the most recent other one."""
    try:
        entries = [e for e in os.listdir(BUILD) if os.path.isdir(os.path.join(BUILD, e)) and e != keep_hash]
    except FileNotFoundError:
        return
    entries.sort(key=lambda e: os.path.getmtime(os.path.join(BUILD, e)), reverse=True)
    for e in entries[2:]:
        shutil.rmtree(os.path.join(BUILD, e), ignore_errors=True)


def build(flavours, jobs=16, quiet=False):
    """flavours: iterable of (flavour, exact). Returns {key: binary path}.
    Raises RuntimeError with the compiler output when a build fails."""
    th = tree_hash()
    base = os.path.join(BUILD, th)
    os.makedirs(base, exist_ok=True)
    out = {}
    lock = open(os.path.join(base, ".lock"), "w")
    fcntl.flock(lock, fcntl.LOCK_EX)
    try:
        tasks = []
        links = []
        for flavour, exact in flavours:
            key = flavour_key(flavour, exact)
            d = os.path.join(base, key)
            binp = os.path.join(d, "sim")
            out[key] = binp
            if os.path.exists(binp):
                continue
            os.makedirs(d, exist_ok=True)
            cxx, cflags, core_flags, ldflags = FLAVOURS[flavour]
            inc = ["-I" + os.path.join(repo_dir(), "include"), "-I" + SIM]
            objs = []
            for tu in TUS:
                flags = core_flags if (tu == "core" and core_flags is not None) else cflags
                obj = os.path.join(d, tu + ".o")
                objs.append(obj)
                cmd = [cxx] + COMMON + flags + (["-DSIM_EXACT"] if exact else []) + inc + \
                      ["-c", os.path.join(SIM, tu + ".cpp"), "-o", obj]
                tasks.append((cmd, obj))
            links.append(([cxx] + objs + ["-o", binp + ".tmp", GUARD_WRAP, "-lpthread"] + ldflags, binp))
        if tasks:
            t0 = time.time()
            if not quiet:
                print("build: compiling %d translation units for %s (tree %s)" % (
                    len(tasks), ",".join(flavour_key(f, e) for f, e in flavours), th), flush=True)
            with concurrent.futures.ThreadPoolExecutor(max_workers=jobs) as ex:
                results = list(ex.map(_compile, tasks))
            for rc, cmd, text in results:
                if rc != 0:
                    raise RuntimeError("compile failed: %s\n%s" % (cmd, text[-4000:]))
            for cmd, binp in links:
                p = subprocess.run(cmd, stdout=subprocess.PIPE, stderr=subprocess.STDOUT, text=True)
                if p.returncode != 0:
                    raise RuntimeError("link failed: %s\n%s" % (" ".join(cmd), p.stdout[-4000:]))
                os.rename(binp + ".tmp", binp)
                # objects are not needed any more
                for o in os.listdir(os.path.dirname(binp)):
                    if o.endswith(".o"):
                        os.unlink(os.path.join(os.path.dirname(binp), o))
            if not quiet:
                print("build: done in %.1fs" % (time.time() - t0), flush=True)
        os.utime(base, None)
        prune(th)
    finally:
        fcntl.flock(lock, fcntl.LOCK_UN)
        lock.close()
    return out


ALL = [("plain", False), ("plain", True), ("asan", False), ("tsan", False),
       ("asan", True), ("selfchk", False), ("vg", False)]

if __name__ == "__main__":
    which = ALL
    if len(sys.argv) > 1:
        which = []
        for a in sys.argv[1:]:
            f, _, s = a.partition("-")
            which.append((f, s == "exact"))
    try:
        r = build(which)
    except RuntimeError as e:
        print(str(e))
        sys.exit(2)
    for k, v in r.items():
        print(k, v)
