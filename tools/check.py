#!/usr/bin/python3
"""Driver for the deterministic-simulation checks (DESIGN §2.7).

  check.py <ID> [--tier quick|thorough]     run the check for one property
  check.py --replay FILE                    re-execute a replay file
  check.py --setup                          pre-build every flavour

Exit status: 0 property held on everything explored (known findings are
printed as KNOWN-FINDING lines), 1 violation (a line
"VIOLATION property=<id> replay=<path>" is printed), 2 machinery error.
"""
import concurrent.futures
import copy
import json
import os
import signal
import subprocess
import sys
import threading
import time

sys.path.insert(0, os.path.dirname(os.path.abspath(__file__)))
import build as B  # noqa: E402

VERIF = B.VERIF
REPLAYS = os.environ.get("VERIF_REPLAY_DIR") or os.path.join(VERIF, "replays")
EVIDENCE = os.environ.get("VERIF_EVIDENCE_DIR") or os.path.join(VERIF, "evidence")
KNOWN = os.path.join(VERIF, "known_findings.txt")

# ---------------------------------------------------------------- configuration
# per check: list of (flavour, exact, runs_quick, runs_thorough)
CHECKS = {
    "C03": {"level": "exploration",
            "flavours": [("plain", True, 150000, 2000000), ("asan", True, 0, 150000), ("plain4", True, 0, 300000)]},
    "C08": {"level": "exploration",
            "flavours": [("plain", False, 160000, 2000000), ("plain", True, 60000, 600000), ("asan", False, 0, 200000)]},
    "C09": {"level": "exploration",
            "flavours": [("asan", False, 60000, 1000000), ("plain", False, 100000, 2000000), ("asan", True, 0, 100000),
                         ("vg", False, 0, 400), ("plain4", False, 0, 500000)]},
    "C10": {"level": "fault_enumeration",
            "flavours": [("plain", False, 100000, 2000000), ("plain", True, 30000, 100000), ("asan", False, 0, 200000),
                         ("selfchk", False, 0, 300000)]},
    "C14": {"level": "fault_enumeration",
            "flavours": [("plain", False, 100000, 2000000), ("plain", True, 30000, 100000), ("asan", False, 0, 200000),
                         ("plain4", False, 0, 300000)]},
    "C18": {"level": "exploration",
            "flavours": [("tsan", False, 40000, 800000), ("plain", False, 100000, 2000000), ("asan", False, 0, 300000)]},
}
# a process death inside one of these operations is also a violation of the
# property whose oracle covers the operation (the call did not deliver the
# specified result); every death is a C09 violation
ARITH = {"P_ADD", "P_SUB", "P_MUL", "P_IADD", "P_ISUB", "P_SCALE", "P_LSCALE", "P_DIV", "P_NEG", "P_ISCALE", "P_IDIV",
         "P_LINCOMB", "P_ASSIGN", "P_XASSIGN"}
MULTI = {"P_ADD", "P_SUB", "P_MUL", "P_IADD", "P_ISUB", "P_LINCOMB", "O_APPLY", "O_BILIN", "O_LIN", "O_HELD_APPLY",
         "Q_NUMINT", "N_NEW"}
DEATH_KINDS = {"C03": ARITH, "C08": MULTI}
# ... and only if the harness had marked the call in progress accordingly:
# C08: the call had to be refused (grids differ), C03: valid arithmetic call on one grid
DEATH_NOTE = {"C03": "2", "C08": "1"}
PLACE = ["place_nested", "place_partial", "place_touch", "place_gap", "place_empty", "place_identical"]
RELEVANT_PROBES = {
    "C03": ["c03_compared", "mixed_order", "self_iadd", "post_failure_reuse", "alias_scalar"] + PLACE,
    "C08": ["xgrid_call", "xgrid_refused", "eqgrid_distinct", "twin_compared"] + PLACE,
    "C09": ["idx_in", "idx_edge", "idx_huge", "idx_wrap", "factor_inside", "moved_from_reuse", "post_failure_reuse",
            "sweep_points", "last_owner_task", "pin_taken", "pin_checked"] + PLACE,
    "C10": ["moved_from_reuse", "post_failure_reuse", "self_assign", "self_iadd", "sweep_points", "xvalue_operand"],
    "C14": ["sweep_points", "post_failure_reuse", "self_assign", "self_iadd", "eqgrid_distinct", "nonconst_operand",
            "xvalue_operand"],
    "C18": ["msg_sent", "msg_recv", "last_owner_task"],
}
QUICK_WALL_CAP = 60.0       # seconds of run time per flavour before no new chunk is handed out
THOROUGH_WALL_CAP = 600.0
MAX_CLASSES = 3             # distinct violation classes minimised and reported per check
MINIMISE_BUDGET = 400       # replays per violation
WORKERS = min(16, os.cpu_count() or 4)


def log(*a):
    print(*a, flush=True)


# ---------------------------------------------------------------- running sim
class Dead(Exception):
    pass


def run_sim(binary, args, timeout=600, valgrind=False):
    """Runs one sim process; returns (exit code, stdout lines, stderr text)."""
    cmd = [binary] + args
    if valgrind:
        cmd = ["valgrind", "-q", "--error-exitcode=77", "--exit-on-first-error=yes"] + cmd
    env = dict(os.environ)
    env["LC_ALL"] = "C"
    # the worker forks one child per run (and that one a child for the reference
    # world): on a timeout the whole process group has to go, otherwise a hung
    # grandchild keeps the pipes open and the driver waits for ever
    p = subprocess.Popen(cmd, stdout=subprocess.PIPE, stderr=subprocess.PIPE, env=env, start_new_session=True)
    try:
        o, e = p.communicate(timeout=timeout)
        rc = p.returncode
        out = o.decode("utf-8", "replace").splitlines()
        err = e.decode("utf-8", "replace")
    except subprocess.TimeoutExpired:
        try:
            os.killpg(p.pid, signal.SIGKILL)
        except OSError:
            pass
        try:
            o, e = p.communicate(timeout=30)
        except subprocess.TimeoutExpired:
            o, e = b"", b""
        rc = -999
        out = (o or b"").decode("utf-8", "replace").splitlines()
        err = (e or b"").decode("utf-8", "replace") + "\n[driver] timeout"
    return rc, out, err


def parse_lines(lines):
    """Returns runs, summaries, begun (last BEGIN), dead (last DEAD line), ended,
    and the list of runs that began but produced no RUN line (each with the DEAD
    line printed for it, if any): with one child process per run the batch
    process survives the death of a run."""
    runs, summaries, begun, dead, ended = [], [], None, None, False
    lost = []
    cur, cur_has_run, cur_dead = None, True, None
    for ln in lines:
        if ln.startswith("RUN "):
            try:
                runs.append(json.loads(ln[4:]))
                cur_has_run = True
            except ValueError:
                pass
        elif ln.startswith("SUMMARY "):
            try:
                summaries.append(json.loads(ln[8:]))
            except ValueError:
                pass
        elif ln.startswith("BEGIN "):
            if cur is not None and not cur_has_run:
                lost.append((cur, cur_dead))
            begun = int(ln[6:])
            cur, cur_has_run, cur_dead = begun, False, None
        elif ln.startswith("DEAD "):
            dead = dict(kv.split("=", 1) for kv in ln[5:].split() if "=" in kv)
            cur_dead = dead
        elif ln == "END":
            ended = True
            if cur is not None and not cur_has_run:
                lost.append((cur, cur_dead))
                cur = None
    return runs, summaries, begun, dead, ended, lost


def run_chunk(binary, check, tier, seed, a, b, valgrind=False):
    """Executes runs a..b-1. Returns dict."""
    res = {"runs": [], "summaries": [], "deaths": [], "timeouts": []}
    cur = a
    while cur < b:
        rc, out, err = run_sim(binary, ["--check", check, "--tier", tier, "--seed", str(seed),
                                        "--runs", "%d:%d" % (cur, b)], valgrind=valgrind,
                               timeout=240 if not valgrind else 1800)
        runs, summaries, begun, dead, ended, lost = parse_lines(out)
        res["runs"] += runs
        res["summaries"] += summaries
        for i, dl in lost:
            d = {"i": i, "rc": rc, "stderr": err[-6000:], "how": (dl or {}).get("how", "exit")}
            if dl:
                d.update({k: dl[k] for k in ("task", "op", "lib", "kind", "note") if k in dl})
            res["deaths"].append(d)
        if ended:
            break
        # the batch process itself stopped inside run `begun` (wall-clock limit or death)
        if begun is None:
            res["deaths"].append({"i": cur, "how": "startup", "rc": rc, "stderr": err[-3000:]})
            break
        if rc == -999:
            # the chunk ran into the driver's wall-clock limit: a slow or hung run,
            # not a crash - counted, replayed for C18 (progress), never a C09 death
            res["timeouts"].append({"i": begun})
        elif not any(i == begun for i, _ in lost):
            d = {"i": begun, "rc": rc, "stderr": err[-6000:], "how": (dead or {}).get("how", "exit")}
            if dead:
                d.update({k: dead[k] for k in ("task", "op", "lib", "kind", "note") if k in dead})
            res["deaths"].append(d)
        cur = begun + 1
    return res


def merge_counts(dst, src):
    for k, v in src.items():
        if isinstance(v, dict):
            merge_counts(dst.setdefault(k, {}), v)
        elif isinstance(v, (int, float)):
            dst[k] = dst.get(k, 0) + v


# ---------------------------------------------------------------- known findings
def load_known():
    known = []
    try:
        for ln in open(KNOWN):
            ln = ln.strip()
            if not ln or ln.startswith("#") or ln.startswith("fixed:"):
                continue
            parts = ln.split(None, 3)
            if len(parts) >= 3:
                known.append({"prop": parts[0], "cls": parts[1], "site": parts[2], "what": parts[3] if len(parts) > 3 else ""})
    except FileNotFoundError:
        pass
    return known


def known_match(known, prop, cls, site):
    for k in known:
        if k["prop"] == prop and k["cls"] == cls and k["site"].replace(" ", "_") == site.replace(" ", "_"):
            return k
    return None


# ---------------------------------------------------------------- replay / minimise
def vclass(v):
    return (v["prop"], v["cls"], v.get("site", ""))


def replay_plan(binary, planfile_obj, tmpname, valgrind=False, record=False):
    """Runs a plan in a fresh process. Returns (classes, hash, result, death, switches)."""
    os.makedirs(REPLAYS, exist_ok=True)
    path = os.path.join(REPLAYS, tmpname)
    with open(path, "w") as f:
        json.dump(planfile_obj, f)
    rc, out, err = run_sim(binary, ["--replay", path] + (["--record-switches"] if record else []), timeout=300, valgrind=valgrind)
    runs, _, begun, dead, _, _ = parse_lines(out)
    classes = set()
    h = None
    result = runs[0] if runs else None
    if result:
        h = result.get("h")
        for v in result.get("viol", []):
            classes.add(vclass(v))
    death = None
    if not runs:
        how = (dead or {}).get("how", "timeout" if rc == -999 else "exit%d" % rc)
        site = (dead or {}).get("kind", "?")
        death = {"how": how, "site": site, "stderr": err[-6000:], "rc": rc}
        classes.add(("C09", "crash-" + how, site))
        note = (dead or {}).get("note", "0")
        for prop, kinds in DEATH_KINDS.items():
            if site in kinds and note == DEATH_NOTE[prop]:
                classes.add((prop, "crash-" + how, site))
    return classes, h, result, death, (result or {}).get("switches")


def ddmin(items, test, budget):
    """Greedy delta debugging: returns a sublist on which test() still holds."""
    n = 2
    while len(items) >= 1 and budget[0] > 0:
        chunk = max(1, len(items) // n)
        reduced = False
        i = 0
        while i < len(items) and budget[0] > 0:
            cand = items[:i] + items[i + chunk:]
            budget[0] -= 1
            if test(cand):
                items = cand
                reduced = True
                n = max(n - 1, 2)
            else:
                i += chunk
        if not reduced:
            if chunk == 1:
                break
            n = min(len(items), n * 2)
    return items


def minimise(binary, pf, target, tag, valgrind=False):
    """pf: {"flavour","exact","plan"}; target: violation class that must persist."""
    budget = [MINIMISE_BUDGET]
    counter = [0]

    def holds(cand_pf):
        counter[0] += 1
        classes, _, _, _, _ = replay_plan(binary, cand_pf, ".min-%s-%d.json" % (tag, os.getpid()), valgrind=valgrind)
        return target in classes

    def with_plan(mod):
        c = copy.deepcopy(pf)
        mod(c["plan"])
        return c

    def try_mod(mod):
        nonlocal pf
        if budget[0] <= 0:
            return False
        budget[0] -= 1
        c = with_plan(mod)
        if holds(c):
            pf = c
            return True
        return False

    plan = pf["plan"]
    is_sched = target[0] == "C18"
    # 1. schedule irrelevant? then use the canonical non-pre-emptive one
    if len(plan["progs"]) > 1 and not is_sched:
        def canon(p):
            p["sched"] = {"policy": 0, "seed": 0, "period": 16, "pct_depth": 1, "est_steps": 1000}
            p["compare_canonical"] = 0
        try_mod(canon)
    # 2. sweeps off (violations found in a sweep were converted to attached faults before)
    if plan.get("sweep"):
        try_mod(lambda p: p.__setitem__("sweep", 0))
    # 3. drop tasks (from the last one; message ids stay valid, absent senders are skipped)
    t = len(pf["plan"]["progs"]) - 1
    while t >= 0 and len(pf["plan"]["progs"]) > 1 and budget[0] > 0:
        def drop(p, t=t):
            del p["progs"][t]
            if p["sched"].get("script"):
                p["sched"]["script"] = [[e[0] - (e[0] > t), e[1], e[2], e[3] - (e[3] > t), e[4]]
                                        for e in p["sched"]["script"] if e[0] != t and e[3] != t]
        try_mod(drop)
        t -= 1
    # 4. explicit schedule for schedule-dependent violations
    if is_sched and len(pf["plan"]["progs"]) > 1 and pf["plan"]["sched"].get("policy") != 4:
        classes, _, res, _, sw = replay_plan(binary, pf, ".min-%s-%d.json" % (tag, os.getpid()), record=True)
        if sw and target in classes:
            def script(p):
                p["sched"]["policy"] = 4
                p["sched"]["script"] = sw
            try_mod(script)
    # 4b. switches of an explicit schedule first: few switches make the programs shrink well
    def shrink_script():
        if pf["plan"]["sched"].get("policy") == 4 and pf["plan"]["sched"].get("script"):
            def test_sw(cand):
                return holds(with_plan(lambda p: p["sched"].__setitem__("script", cand)))
            pf["plan"]["sched"]["script"] = ddmin(list(pf["plan"]["sched"]["script"]), test_sw, budget)
    shrink_script()
    # 5. operations of each program and of the setup; an explicit schedule is
    # kept aligned: entries of removed operations go, later ones are renumbered
    for which in list(range(len(pf["plan"]["progs"]))) + ["setup"]:
        orig = list(pf["plan"]["setup"] if which == "setup" else pf["plan"]["progs"][which])
        orig_script = list(pf["plan"]["sched"].get("script") or [])

        def build(keep, which=which, orig=orig, orig_script=orig_script):
            def put(p):
                ops = [orig[i] for i in keep]
                if which == "setup":
                    p["setup"] = ops
                    return
                p["progs"][which] = ops
                if p["sched"].get("policy") == 4:
                    remap = {old: new for new, old in enumerate(keep)}
                    remap[len(orig)] = len(keep)
                    out = []
                    for e in orig_script:
                        if e[0] != which:
                            out.append(e)
                        elif e[1] in remap:
                            out.append([e[0], remap[e[1]], e[2], e[3], e[4]])
                    p["sched"]["script"] = out
            return with_plan(put)

        keep = ddmin(list(range(len(orig))), lambda cand: holds(build(cand)), budget)
        pf = build(keep)
    # 5b. tasks whose program became empty
    t = len(pf["plan"]["progs"]) - 1
    while t >= 0 and len(pf["plan"]["progs"]) > 1 and budget[0] > 0:
        if not pf["plan"]["progs"][t]:
            def drop2(p, t=t):
                del p["progs"][t]
                if p["sched"].get("script"):
                    p["sched"]["script"] = [[e[0] - (e[0] > t), e[1], e[2], e[3] - (e[3] > t), e[4]]
                                            for e in p["sched"]["script"] if e[0] != t and e[3] != t]
            try_mod(drop2)
        t -= 1
    # 6. faults
    for prog in pf["plan"]["progs"]:
        for idx, op in enumerate(prog):
            if op.get("f") and budget[0] > 0:
                saved = op["f"]
                del op["f"]
                budget[0] -= 1
                if not holds(pf):
                    op["f"] = saved
    # 7. switches of an explicit schedule once more
    shrink_script()
    # 8. smaller grid
    for gn in (3, 4, 5):
        if pf["plan"].get("gn", 9) > gn and try_mod(lambda p, gn=gn: p.__setitem__("gn", gn)):
            break
    return pf, counter[0]


def attach_sweep_fault(pf, v):
    """A violation found while sweeping fault k of an operation becomes an
    attached fault of that operation (same place, same oracle, no sweep)."""
    c = copy.deepcopy(pf)
    try:
        op = c["plan"]["progs"][v["task"]][v["op"]]
    except (IndexError, KeyError):
        return None
    op["f"] = [[v["sweep_kind"], v["sweep_k"]]]
    c["plan"]["sweep"] = 0
    return c


# ---------------------------------------------------------------- one check
def do_check(check, tier, seed):
    t_start = time.time()
    cfg = CHECKS[check]
    known = load_known()
    flavours = [(f, e, (rq if tier == "quick" else rt)) for (f, e, rq, rt) in cfg["flavours"]]
    flavours = [x for x in flavours if x[2] > 0]
    try:
        bins = B.build([(f, e) for f, e, _ in flavours])
    except RuntimeError as e:
        log("BUILD-ERROR (machinery, exit 2):")
        log(str(e))
        return 2
    cap = QUICK_WALL_CAP if tier == "quick" else THOROUGH_WALL_CAP
    if os.environ.get("VERIF_WALL_CAP"):  # smoke tests of a tier: seconds of run time per flavour
        cap = float(os.environ["VERIF_WALL_CAP"])
    agg = {}
    per_flavour = {}
    all_viol = []     # (flavour key, run record, violation)
    deaths = []       # (flavour key, death record)
    timeouts = []     # (flavour key, run index)
    hashes = {}       # (flavour key, run index) -> hash
    sigs, pstates = set(), set()
    samples = []
    total_runs = 0
    nontrivial_sigs = set()
    foreign_truncated = 0
    for flavour, exact, nruns in flavours:
        key = B.flavour_key(flavour, exact)
        binary = bins[key]
        vg = flavour == "vg"
        chunk = 20 if vg else (250 if flavour in ("asan", "tsan") else 1000)
        if exact:
            chunk = min(chunk, 200)
        chunks = [(a, min(a + chunk, nruns)) for a in range(0, nruns, chunk)]
        t0 = time.time()
        done_runs = 0
        fl_counts = {}
        lock = threading.Lock()
        stop = [False]

        def work(ab):
            if stop[0]:
                return None
            if time.time() - t0 > cap:
                stop[0] = True
                return None
            return run_chunk(binary, check, tier, seed, ab[0], ab[1], valgrind=vg)

        with concurrent.futures.ThreadPoolExecutor(max_workers=WORKERS) as ex:
            for r in ex.map(work, chunks):
                if r is None:
                    continue
                for s in r["summaries"]:
                    merge_counts(fl_counts, s)
                for run in r["runs"]:
                    done_runs += 1
                    hashes[(key, run["i"])] = run["h"]
                    sigs.add(run["sig"])
                    pstates.add(run["ps"])
                    if run.get("nt"):
                        nontrivial_sigs.add(run["sig"])
                    vs = run.get("viol", [])
                    mine = [v for v in vs if v["prop"] == check]
                    if vs and not mine:
                        foreign_truncated += 1
                    for v in mine:
                        all_viol.append((key, run, v))
                for d in r["deaths"]:
                    deaths.append((key, d))
                for d in r["timeouts"]:
                    timeouts.append((key, d["i"]))
        per_flavour[key] = {"runs": done_runs, "planned_runs": nruns, "wall_s": round(time.time() - t0, 2),
                            "runs_per_hour": int(done_runs / max(1e-6, time.time() - t0) * 3600)}
        merge_counts(agg, fl_counts)
        total_runs += done_runs
        log("%s %s: %d/%d runs in %.1fs, %d violating, %d dead" % (
            check, key, done_runs, nruns, time.time() - t0,
            len(set(r["i"] for k, r, v in all_viol if k == key)), len([1 for k, d in deaths if k == key])))

    # ---------------------------------------------------------- determinism audit
    audit = {"sampled": 0, "diverged": 0}
    audit_fail = []
    for flavour, exact, nruns in flavours:
        key = B.flavour_key(flavour, exact)
        if flavour == "vg":
            continue
        step = 53 if tier == "quick" else 211
        idx = [i for i in range(7, nruns, step) if (key, i) in hashes][: (40 if tier == "quick" else 200)]

        def one(i, key=key):
            r = run_chunk(bins[key], check, tier, seed, i, i + 1)
            return i, (r["runs"][0]["h"] if r["runs"] else None)
        with concurrent.futures.ThreadPoolExecutor(max_workers=WORKERS) as ex:
            for i, h in ex.map(one, idx):
                audit["sampled"] += 1
                if h != hashes[(key, i)]:
                    audit["diverged"] += 1
                    audit_fail.append((key, i))
    if audit_fail:
        log("DETERMINISM-AUDIT: event-log hash differs between two executions of", audit_fail[:5],
            "(machinery error unless a confirmed violation below explains it)")

    # ---------------------------------------------------------- classify
    classes = {}   # class -> (flavour key, run, violation)
    for key, run, v in all_viol:
        classes.setdefault(vclass(v), (key, run, v))
    death_runs = []
    for key, d in deaths:
        death_runs.append((key, d))

    exit_code = 0
    reported = []
    known_hits = []
    machinery_errors = []

    def flavour_of(key):
        f, _, s = key.partition("-")
        return f, s == "exact"

    def dump_plan(key, i):
        rc, out, err = run_sim(bins[key], ["--check", check, "--tier", tier, "--seed", str(seed), "--dump-plan", str(i)])
        for ln in out:
            if ln.startswith("PLAN "):
                return json.loads(ln[5:])
        return None

    def handle(key, i, target, detail, sweep_v=None):
        """gate, minimise, write replay file; returns path or None (machinery error)"""
        pf = dump_plan(key, i)
        if pf is None:
            machinery_errors.append("cannot dump plan %s/%d" % (key, i))
            return None
        vgf = key.startswith("vg")
        tag = "%s-%s-%d" % (check, key, i)
        c1, h1, r1, d1, _ = replay_plan(bins[key], pf, ".gate-%s.json" % tag, valgrind=vgf)
        c2, h2, r2, d2, _ = replay_plan(bins[key], pf, ".gate-%s.json" % tag, valgrind=vgf)
        if target not in c1 or target not in c2 or h1 != h2:
            machinery_errors.append("gate: run %s/%d does not reproduce %s twice in fresh processes (%s / %s)" % (
                key, i, target, sorted(c1), sorted(c2)))
            return None
        if sweep_v is not None:
            c = attach_sweep_fault(pf, sweep_v)
            if c is not None:
                cc, _, _, _, _ = replay_plan(bins[key], c, ".gate-%s.json" % tag, valgrind=vgf)
                if target in cc:
                    pf = c
        before_ops = sum(len(p) for p in pf["plan"]["progs"]) + len(pf["plan"]["setup"])
        pf, nrep = minimise(bins[key], pf, target, tag, valgrind=vgf)
        after_ops = sum(len(p) for p in pf["plan"]["progs"]) + len(pf["plan"]["setup"])
        cf, hf, rf, df, _ = replay_plan(bins[key], pf, ".gate-%s.json" % tag, valgrind=vgf)
        if target not in cf:
            machinery_errors.append("minimised plan for %s/%d lost the violation" % (key, i))
            return None
        pf["property"] = target[0]
        pf["violation_class"] = target[1]
        pf["site"] = target[2]
        pf["detail"] = detail
        pf["found"] = {"check": check, "tier": tier, "seed": seed, "run": i, "flavour": key,
                       "ops_before_minimisation": before_ops, "ops_after": after_ops, "replays_used": nrep}
        if df:
            pf["crash"] = {"how": df["how"], "stderr_tail": df["stderr"][-3000:]}
        elif rf:
            pf["violations"] = rf.get("viol", [])
        name = "%s-%s-%s-%d.json" % (target[0], target[1], key, i)
        path = os.path.join(REPLAYS, name)
        with open(path, "w") as f:
            json.dump(pf, f, indent=1)
        for fn in os.listdir(REPLAYS):
            if fn.startswith(".gate-%s" % tag) or fn.startswith(".min-%s" % tag):
                try:
                    os.unlink(os.path.join(REPLAYS, fn))
                except OSError:
                    pass
        return path

    # oracle violations of this property
    n_handled = 0
    for target, (key, run, v) in sorted(classes.items()):
        k = known_match(known, *target)
        if k:
            known_hits.append((target, k, run["i"], key))
            continue
        if n_handled >= MAX_CLASSES:
            reported.append((target, None, v.get("detail", "")))
            exit_code = 1
            continue
        n_handled += 1
        path = handle(key, run["i"], target, v.get("detail", ""), v if v.get("sweep_kind", -1) >= 0 else None)
        if path is None:
            continue
        reported.append((target, path, v.get("detail", "")))
        exit_code = 1

    # dead runs: C09 always; C18 only if the canonical schedule survives; others: inconclusive
    dead_classes = {}
    aborted_foreign = 0
    if check in ("C09", "C18") or check in DEATH_KINDS:
        first_of = {}
        for key, d in death_runs:
            if d.get("how") == "startup":
                machinery_errors.append("worker could not start: %s" % d.get("stderr", "")[-500:])
                continue
            if check in DEATH_KINDS and d.get("note", "0") != DEATH_NOTE[check]:
                aborted_foreign += 1
                continue
            first_of.setdefault((key, d.get("how", "?"), d.get("kind", "?")), d)
        for (key, how, kind), d in sorted(first_of.items(), key=lambda kv: (kv[0][1], kv[0][2], kv[0][0])):
            if check in DEATH_KINDS and (kind not in DEATH_KINDS[check] or d.get("note", "0") != DEATH_NOTE[check]):
                aborted_foreign += 1
                continue
            target = (check if check in DEATH_KINDS else "C09", "crash-" + how, kind)
            if check != "C18" and (target in dead_classes or known_match(known, *target)):
                dead_classes.setdefault(target, (key, d))
                continue
            pf = dump_plan(key, d["i"])
            if pf is None:
                machinery_errors.append("cannot dump plan of dead run %s/%d" % (key, d["i"]))
                continue
            vgf = key.startswith("vg")
            cls_, _, _, dd, _ = replay_plan(bins[key], pf, ".gate-dead-%s-%s-%d.json" % (check, key, d["i"]), valgrind=vgf)
            crash = [c for c in cls_ if c[1].startswith("crash-")]
            if not crash:
                if check == "C09":
                    machinery_errors.append("dead run %s/%d does not die again when replayed in a fresh process" % (key, d["i"]))
                else:
                    # a death that does not replay is undefined behaviour somewhere (C09's
                    # business); this check can conclude nothing from it
                    aborted_foreign += 1
                continue
            if check == "C18":
                c2 = copy.deepcopy(pf)
                c2["plan"]["sched"] = {"policy": 0, "seed": 0, "period": 16, "pct_depth": 1, "est_steps": 1000}
                c2["plan"]["compare_canonical"] = 0
                cc, _, _, _, _ = replay_plan(bins[key], c2, ".gate-dead-%s-%s-%d.json" % (check, key, d["i"]))
                if any(c[1].startswith("crash-") for c in cc):
                    aborted_foreign += 1   # dies sequentially as well: C09's business
                    continue
                target = ("C18", "crash-under-schedule", crash[0][2])
            elif target not in cls_:
                machinery_errors.append("dead run %s/%d dies differently when replayed (%s vs %s)" % (key, d["i"], target, sorted(cls_)))
                continue
            dead_classes.setdefault(target, (key, d))
        for target, (key, d) in sorted(dead_classes.items()):
            k = known_match(known, *target)
            if k:
                known_hits.append((target, k, d["i"], key))
                continue
            if n_handled >= MAX_CLASSES:
                reported.append((target, None, d.get("stderr", "")[-300:]))
                exit_code = 1
                continue
            n_handled += 1
            if check == "C18":
                # keep the schedule; report the unminimised plan
                pf = dump_plan(key, d["i"])
                pf.update({"property": "C18", "violation_class": target[1], "site": target[2],
                           "detail": "process died under the explored schedule but not under the non-pre-emptive one"})
                path = os.path.join(REPLAYS, "C18-%s-%s-%d.json" % (target[1], key, d["i"]))
                os.makedirs(REPLAYS, exist_ok=True)
                json.dump(pf, open(path, "w"), indent=1)
            else:
                path = handle(key, d["i"], target, "process died: " + d.get("how", "?"))
                if path is None:
                    continue
            reported.append((target, path, d.get("how", "")))
            exit_code = 1
    else:
        aborted_foreign = len(death_runs)

    # runs that hit the wall-clock limit: for C18 a hang that the non-pre-emptive
    # schedule of the same plan does not have is a progress violation
    hang_inconclusive = 0
    if check == "C18":
        for key, i in timeouts[:3]:
            pf = dump_plan(key, i)
            if pf is None:
                continue
            c1, _, r1, d1, _ = replay_plan(bins[key], pf, ".gate-hang-%s-%d.json" % (key, i))
            hung = d1 is not None and d1.get("rc") == -999
            if not hung:
                hang_inconclusive += 1
                continue
            c2 = copy.deepcopy(pf)
            c2["plan"]["sched"] = {"policy": 0, "seed": 0, "period": 16, "pct_depth": 1, "est_steps": 1000}
            c2["plan"]["compare_canonical"] = 0
            cc, _, r2, d2, _ = replay_plan(bins[key], c2, ".gate-hang-%s-%d.json" % (key, i))
            if d2 is not None and d2.get("rc") == -999:
                hang_inconclusive += 1   # hangs sequentially as well: not a schedule matter
                continue
            pf.update({"property": "C18", "violation_class": "hang-under-schedule", "site": "scheduler",
                       "detail": "run does not finish under the explored schedule (killed after the wall-clock limit) but does under the non-pre-emptive one"})
            path = os.path.join(REPLAYS, "C18-hang-%s-%d.json" % (key, i))
            os.makedirs(REPLAYS, exist_ok=True)
            json.dump(pf, open(path, "w"), indent=1)
            reported.append((("C18", "hang-under-schedule", "scheduler"), path, pf["detail"]))
            exit_code = 1
            break
    else:
        hang_inconclusive = len(timeouts)

    for target, k, i, key in known_hits:
        log("KNOWN-FINDING: property=%s %s at %s (%s) [seen in run %d, %s]" % (target[0], target[1], target[2], k["what"], i, key))
    for target, path, detail in reported:
        if path:
            log("VIOLATION property=%s replay=%s" % (target[0], path))
            log("  class=%s site=%s :: %s" % (target[1], target[2], (detail or "")[:300]))
    extra = [t for t, path, _ in reported if not path]
    if extra:
        log("further violation classes of %s seen but not minimised (limit %d per run): %s" % (
            check, MAX_CLASSES, ", ".join("%s@%s" % (t[1], t[2]) for t in extra[:40])))
    confirmed = [1 for _, path, _ in reported if path]
    if machinery_errors or audit_fail:
        if confirmed:
            # Undefined behaviour that has been confirmed (gated replay file above)
            # makes other runs depend on heap addresses: they are reported, but
            # they do not turn a confirmed violation into a machinery error.
            for m in machinery_errors:
                log("NOTE (not reproducible; consistent with the undefined behaviour reported above): " + m)
        else:
            for m in machinery_errors:
                log("MACHINERY-ERROR: " + m)
            exit_code = 2

    # ---------------------------------------------------------- evidence
    # samples: the plans of a few runs, written out
    sample_idx = [0, 1]
    for flavour, exact, nruns in flavours[:1]:
        key = B.flavour_key(flavour, exact)
        for i in sample_idx:
            pf = dump_plan(key, i)
            if pf:
                p = pf["plan"]
                samples.append({"flavour": key, "run": i, "seed": p["seed"], "grid_points": p["gn"],
                                "tasks": len(p["progs"]), "schedule": p["sched"], "sweep": p["sweep"],
                                "setup": [o["k"] for o in p["setup"]],
                                "programs": [[(o["k"] + ("!" + ",".join("%d@%d" % (f[0], f[1]) for f in o["f"]) if o.get("f") else ""))
                                              for o in prog] for prog in p["progs"]]})
    wall = time.time() - t_start
    probes = agg.get("probes", {})
    zero_probes = sorted(k for k in RELEVANT_PROBES[check] if probes.get(k, 0) == 0)
    if check == "C18":
        if agg.get("guard_contended", 0) == 0:
            zero_probes.append("static_init_contended")
        if agg.get("guard_aborts", 0) == 0:
            zero_probes.append("static_init_aborted")
    if check == "C08":
        for e, row in agg.get("c08_matrix", {}).items():
            for d, n in row.items():
                if n == 0 and d != "other":
                    zero_probes.append("matrix[%s][%s]" % (e, d))
    if zero_probes and tier == "thorough" and exit_code == 0:
        # a silent blind spot is a machinery defect, not a pass (DESIGN §4)
        log("MACHINERY-ERROR: coverage probes at zero in the thorough tier: " + ", ".join(zero_probes))
        exit_code = 2
    ev = {
        "property_id": check,
        "tier": tier,
        "seed": seed,
        "level": cfg["level"],
        "wall_s": round(wall, 2),
        "violations": len(reported),
        "coverage": {
            "evaluations": total_runs,
            "distinct_nontrivial": len(nontrivial_sigs),
            "rule": "one evaluation = one simulated world (shared const pool built by main, 1-4 tasks each running a "
                    "generated program of public-API operations with attached faults, under one seeded schedule; with "
                    "sweep=1 every operation is additionally re-executed on copies once per allocation point and per "
                    "(sampled) scalar-operation point with the fault at that point). A run is non-trivial if it has an "
                    "attached fault, or more context switches than tasks+1, or a state-changing operation; distinct = "
                    "distinct (operation-kind multiset, fault-kind multiset, switch-sequence hash, sweep flag) signatures.",
            "samples": samples,
            "per_flavour": per_flavour,
            "simulated_time": {"clock": "none in system under test; logical time = yield points",
                               "yield_points": agg.get("steps", 0), "by_kind": agg.get("yields", {})},
            "context_switches": agg.get("switches", 0),
            "context_switches_while_exception_in_flight": agg.get("switches_in_exception", 0),
            "distinct_switch_signatures": len(sigs),
            "distinct_abstract_final_pool_states": len(pstates),
            "schedule_policies": agg.get("policy_runs", {}),
            "operations_executed": agg.get("ops", {}),
            "operation_outcomes": agg.get("op_status", {}),
            "faults": {"attached": agg.get("faults_attached", {}), "fired": agg.get("faults_fired", {}),
                       "sweep_points_executed": agg.get("sweep_points", {}), "operations_swept": agg.get("sweep_ops", 0),
                       "not_present_in_system_under_test": ["message loss/duplication/reordering", "partition", "clock skew",
                                                            "disk error / torn write", "crash-restart with durable state"]},
            "static_init": {"initialisations": agg.get("guard_inits", 0), "contended": agg.get("guard_contended", 0),
                            "aborted": agg.get("guard_aborts", 0)},
            "blocked_events": agg.get("blocked", 0),
            "runs_multi_task": agg.get("runs_multi", 0),
            "runs_with_sweep": agg.get("runs_sweep", 0),
            "runs_fault_free": agg.get("runs_faultfree", 0),
            "ops_compared_with_canonical_schedule": agg.get("canonical_compared_ops", 0),
            "runs_where_attached_faults_fired_differently_between_schedules": agg.get("runs_fault_divergent", 0),
            "tsan_reports": agg.get("tsan_reports", 0),
            "probes": probes,
            "entry_point_x_grid_difference": agg.get("c08_matrix", {}),
            "relevant_probes": RELEVANT_PROBES[check],
            "relevant_probes_at_zero": zero_probes,
            "runs_stopped_by_other_property": foreign_truncated,
            "aborted_runs_attributed_elsewhere": aborted_foreign,
            "dead_runs": len(death_runs),
            "runs_hitting_wall_clock_limit": len(timeouts),
            "determinism_audit": audit,
            "known_findings_seen": [" ".join(t) for t, _, _, _ in known_hits],
            "components": {"real_code": ["every header under include/bspline (instantiated with sim::Num)"],
                           "stubs": ["scalar type sim::Num over " + "double / cpp_rational",
                                     "global operator new/delete (fault + yield seam)",
                                     "__cxa_guard_* (static initialisation under the scheduler)",
                                     "interpolation Solver (exact Gaussian elimination)", "quadrature weight function",
                                     "caller threads (cooperative fibers on one OS thread)"]},
        },
        "assumptions": [
            "sequentially consistent interleaving at yield points; weak-memory effects are covered only by TSan's happens-before analysis",
            "only double and cpp_rational scalars; spline orders <= %d stored, results up to order 6 checked" % 3,
            "libstdc++/libc internals are real but uninstrumented",
            "a clean batch is evidence, not proof",
        ],
    }
    os.makedirs(EVIDENCE, exist_ok=True)
    with open(os.path.join(EVIDENCE, check + ".json"), "w") as f:
        json.dump(ev, f, indent=1)
    log("%s %s: %d runs, %d distinct non-trivial, %d yield points, %d switches, wall %.1fs, exit %d" % (
        check, tier, total_runs, len(nontrivial_sigs), agg.get("steps", 0), agg.get("switches", 0), wall, exit_code))
    return exit_code


def do_replay(path):
    pf = json.load(open(path))
    flavour, exact = pf.get("flavour", "plain"), bool(pf.get("exact"))
    try:
        bins = B.build([(flavour, exact)])
    except RuntimeError as e:
        log(str(e))
        return 2
    key = B.flavour_key(flavour, exact)
    classes, h, res, death, _ = replay_plan(bins[key], pf, ".replay-%d.json" % os.getpid(), valgrind=(flavour == "vg"))
    try:
        os.unlink(os.path.join(REPLAYS, ".replay-%d.json" % os.getpid()))
    except OSError:
        pass
    want = (pf.get("property"), pf.get("violation_class"), pf.get("site"))
    log("replay %s on %s: classes %s hash %s" % (path, key, sorted(classes), h))
    if death:
        log(death["stderr"][-2500:])
    elif res:
        for v in res.get("viol", []):
            log("  %s:%s at %s task %s op %s: %s" % (v["prop"], v["cls"], v.get("site"), v.get("task"), v.get("op"), v.get("detail", "")[:400]))
    if want[0] and want in classes:
        log("VIOLATION property=%s replay=%s" % (want[0], path))
        return 1
    if classes:
        log("replay shows a different violation than recorded (%s)" % (want,))
        return 1
    return 0


def main():
    args = sys.argv[1:]
    if not args:
        print(__doc__)
        return 2
    if args[0] == "--setup":
        try:
            B.build(B.ALL)
        except RuntimeError as e:
            log(str(e))
            return 2
        return 0
    if args[0] == "--replay":
        return do_replay(args[1])
    check = args[0]
    tier = os.environ.get("VERIF_TIER") or "quick"
    if "--tier" in args:
        tier = args[args.index("--tier") + 1]
    try:
        seed = int(os.environ.get("VERIF_SEED", "20260926"))
    except ValueError:
        seed = 20260926
    seed &= (1 << 62) - 1
    if check not in CHECKS:
        log("unknown check", check)
        return 2
    return do_check(check, tier, seed)


if __name__ == "__main__":
    sys.exit(main())
