// Minimal JSON value (harness only): integers, strings, bools, arrays, objects.
#pragma once
#include <cstdint>
#include <cstdio>
#include <map>
#include <string>
#include <utility>
#include <vector>

namespace sj {

struct Value {
  enum Kind { NUL, BOOL, INT, STR, ARR, OBJ } kind = NUL;
  bool b = false;
  int64_t i = 0;
  std::string s;
  std::vector<Value> a;
  std::vector<std::pair<std::string, Value>> o;  // insertion ordered

  Value() {}
  static Value Int(int64_t v) { Value x; x.kind = INT; x.i = v; return x; }
  static Value U64(uint64_t v) { return Int((int64_t)v); }
  static Value Bool(bool v) { Value x; x.kind = BOOL; x.b = v; return x; }
  static Value Str(const std::string &v) { Value x; x.kind = STR; x.s = v; return x; }
  static Value Arr() { Value x; x.kind = ARR; return x; }
  static Value Obj() { Value x; x.kind = OBJ; return x; }

  Value &set(const std::string &k, Value v) {
    for (auto &kv : o)
      if (kv.first == k) { kv.second = std::move(v); return *this; }
    o.emplace_back(k, std::move(v));
    return *this;
  }
  Value &push(Value v) { a.push_back(std::move(v)); return *this; }
  const Value *get(const std::string &k) const {
    for (auto &kv : o)
      if (kv.first == k) return &kv.second;
    return nullptr;
  }
  int64_t geti(const std::string &k, int64_t dflt = 0) const {
    const Value *v = get(k);
    if (!v) return dflt;
    if (v->kind == INT) return v->i;
    if (v->kind == BOOL) return v->b;
    return dflt;
  }
  std::string gets(const std::string &k, const std::string &dflt = "") const {
    const Value *v = get(k);
    return v && v->kind == STR ? v->s : dflt;
  }

  void dump(std::string &out) const {
    switch (kind) {
      case NUL: out += "null"; break;
      case BOOL: out += b ? "true" : "false"; break;
      case INT: out += std::to_string(i); break;
      case STR: {
        out += '"';
        for (char c : s) {
          if (c == '"' || c == '\\') { out += '\\'; out += c; }
          else if (c == '\n') out += "\\n";
          else if ((unsigned char)c < 0x20) { char buf[8]; snprintf(buf, sizeof buf, "\\u%04x", c); out += buf; }
          else out += c;
        }
        out += '"';
        break;
      }
      case ARR: {
        out += '[';
        for (size_t k = 0; k < a.size(); k++) { if (k) out += ','; a[k].dump(out); }
        out += ']';
        break;
      }
      case OBJ: {
        out += '{';
        for (size_t k = 0; k < o.size(); k++) {
          if (k) out += ',';
          Str(o[k].first).dump(out);
          out += ':';
          o[k].second.dump(out);
        }
        out += '}';
        break;
      }
    }
  }
  std::string str() const { std::string r; dump(r); return r; }
};

struct Parser {
  std::string text;  // owned copy: callers may pass temporaries
  const char *p, *e;
  bool ok = true;
  explicit Parser(const std::string &s) : text(s), p(text.data()), e(text.data() + text.size()) {}
  void ws() { while (p < e && (*p == ' ' || *p == '\n' || *p == '\t' || *p == '\r')) p++; }
  Value parse() {
    ws();
    Value v;
    if (p >= e) { ok = false; return v; }
    if (*p == '{') {
      v.kind = Value::OBJ; p++; ws();
      if (p < e && *p == '}') { p++; return v; }
      while (ok) {
        ws();
        Value k = parse();
        if (k.kind != Value::STR) { ok = false; break; }
        ws();
        if (p >= e || *p != ':') { ok = false; break; }
        p++;
        Value x = parse();
        v.o.emplace_back(k.s, std::move(x));
        ws();
        if (p < e && *p == ',') { p++; continue; }
        if (p < e && *p == '}') { p++; break; }
        ok = false;
      }
    } else if (*p == '[') {
      v.kind = Value::ARR; p++; ws();
      if (p < e && *p == ']') { p++; return v; }
      while (ok) {
        v.a.push_back(parse());
        ws();
        if (p < e && *p == ',') { p++; continue; }
        if (p < e && *p == ']') { p++; break; }
        ok = false;
      }
    } else if (*p == '"') {
      v.kind = Value::STR; p++;
      while (p < e && *p != '"') {
        if (*p == '\\' && p + 1 < e) {
          p++;
          if (*p == 'n') v.s += '\n';
          else if (*p == 'u' && p + 4 < e) { p += 4; v.s += '?'; }
          else v.s += *p;
          p++;
        } else v.s += *p++;
      }
      if (p < e) p++; else ok = false;
    } else if (*p == 't' && e - p >= 4) { v.kind = Value::BOOL; v.b = true; p += 4; }
    else if (*p == 'f' && e - p >= 5) { v.kind = Value::BOOL; v.b = false; p += 5; }
    else if (*p == 'n' && e - p >= 4) { p += 4; }
    else {
      bool neg = false;
      if (*p == '-') { neg = true; p++; }
      if (p >= e || *p < '0' || *p > '9') { ok = false; return v; }
      uint64_t u = 0;
      while (p < e && *p >= '0' && *p <= '9') u = u * 10 + (uint64_t)(*p++ - '0');
      v.kind = Value::INT;
      v.i = neg ? -(int64_t)u : (int64_t)u;
    }
    return v;
  }
};

}  // namespace sj
