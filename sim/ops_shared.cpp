// Operator expressions and forms that are themselves shared as const objects
// (C18: "... operators and forms that share grids or are themselves shared as
// const objects"). The recipes of ops_apply / ops_forms build a fresh
// expression object per call; here one object of each kind is built once by
// the main context (setup program, before the tasks exist) and then used
// concurrently by every task through a const reference - hidden per-object
// state (a `mutable` scratch buffer or cache in an operator or form class) is
// only ever visible this way.
#include "recipes.h"

namespace simw {

namespace integ = bspline::integration;

namespace {

using namespace bspline::operators;
using V1 = Sp<1>;

// every expression is built from prvalues only (the expression templates keep
// references to lvalue operands; lifetime of such references is C05's domain)
auto mkA() { return X<1>{} * Dx<1>{} - Dx<1>{} * X<1>{}; }
auto mkB(const T &s) { return (Dx<2>{} + X<1>{}) / s; }
auto mkC(const V1 &v) { return X<1>{} * SplineOperator{v} + IdentityOperator{}; }
auto mkD() { return integ::ScalarProduct{}; }
auto mkE() { return integ::BilinearForm{Dx<1>{}, Dx<1>{}}; }
auto mkF(const T &s) { return integ::BilinearForm{s * (-Dx<2>{} + X<2>{})}; }
auto mkG(const V1 &v) { return integ::BilinearForm{SplineOperator{v}}; }
auto mkH() { return integ::LinearForm{X<1>{}}; }
auto mkI(const V1 &v) { return integ::LinearForm{SplineOperator{v} * Dx<1>{}}; }
auto mkJ(const T &s) { return s * Dx<1>{} + s; }

struct SharedObjs final : SharedObjsBase {
  V1 v;  // the spline the factor operators were built from (kept alive; they hold copies)
  decltype(mkA()) a;
  decltype(mkB(std::declval<const T &>())) b;
  decltype(mkC(std::declval<const V1 &>())) cc;
  decltype(mkJ(std::declval<const T &>())) j;
  decltype(mkD()) d;
  decltype(mkE()) e;
  decltype(mkF(std::declval<const T &>())) f;
  decltype(mkG(std::declval<const V1 &>())) g;
  decltype(mkH()) h;
  decltype(mkI(std::declval<const V1 &>())) i;
  SharedObjs(const V1 &v_, const T &s)
      : v(v_), a(mkA()), b(mkB(s)), cc(mkC(v)), j(mkJ(s)), d(mkD()), e(mkE()), f(mkF(s)), g(mkG(v)), h(mkH()), i(mkI(v)) {}
};

std::vector<std::array<T, 2>> linear_coeffs(size_t nint, uint32_t seed) {
  sim::Exempt e;
  sim::Rng r(sim::mix3(seed, 0x5a4ed, 1));
  std::vector<std::array<T, 2>> cs;
  cs.reserve(nint);
  for (size_t k = 0; k < nint; k++) {
    std::array<T, 2> a;
    for (size_t q = 0; q < 2; q++) {
      int num = r.range(-8, 8);
#ifdef SIM_EXACT
      a[q] = T::make(Val(num) / Val(4));
#else
      a[q] = T::make(num / 4.0);
#endif
    }
    cs.push_back(a);
  }
  return cs;
}

}  // namespace

void destroy_shared_objs(World &w) {
  // library code: destroys a spline, operators holding copies of it, scalars
  delete w.shobj;
  w.shobj = nullptr;
}

bool exec_shared(ExecCtx &c) {
  const Op &op = c.op;
  Outcome &out = c.out;
  switch (op.kind) {
    case OP_O_SH_BUILD: {
      // main context only, once
      if (c.task >= 0 || c.w.shobj || !c.w.shared.g[0]) return true;
      const Grid &g = *c.w.shared.g[0];
      size_t n, lo, hi;
      {
        sim::Exempt e;
        n = g.size();
        lo = op.b % (n - 1);
        hi = lo + 2 + op.c % (n - lo - 1);  // window [lo, hi) with at least one interval
      }
      T s = scalar_choice(1 + op.a % 11);  // never zero: B divides by it
      auto cs = linear_coeffs(hi - lo - 1, op.d);
      SharedObjs *so = nullptr;
      libcall(out, [&] {
        V1 v(Support(g, lo, hi), std::move(cs));
        so = new SharedObjs(v, s);
      });
      if (so) {
        c.w.shobj = so;
        out.obs = hmix(out.obs, hash_spline(so->v));
      }
      return true;
    }
    case OP_O_SH_APPLY: {
      auto *so = static_cast<const SharedObjs *>(c.w.shobj);
      const SpV *xs = ref_sp(c, op.c);
      if (!so || !xs) return true;
      int dst = op.a % NP;
      std::visit(
          [&](const auto &x) {
            const int cx = value_cat(c, xs, 0, false);
            libcall(out, [&] {
              as_cat(cx, x, [&](auto &&xx) {
                switch (op.b % 4) {
                  case 0: store_result(c, dst, so->a * SIM_FWD(xx)); break;
                  case 1: store_result(c, dst, so->b * SIM_FWD(xx)); break;
                  case 2: store_result(c, dst, so->cc * SIM_FWD(xx)); break;
                  default: store_result(c, dst, so->j * SIM_FWD(xx)); break;
                }
              });
            });
          },
          *xs);
      return true;
    }
    case OP_O_SH_BILIN: {
      auto *so = static_cast<const SharedObjs *>(c.w.shobj);
      const SpV *xs = ref_sp(c, op.b), *ys = ref_sp(c, op.c);
      if (!so || !xs || !ys) return true;
      std::visit(
          [&](const auto &x, const auto &y) {
            uint64_t got = 0;
            libcall(out, [&] {
              T val = [&] {
                switch (op.a % 4) {
                  case 0: return so->d(x, y);
                  case 1: return so->e(x, y);
                  case 2: return so->f(x, y);
                  default: return so->g(x, y);
                }
              }();
              sim::Exempt e;
              got = val.bits();
            });
            out.obs = hmix(out.obs, got);
          },
          *xs, *ys);
      return true;
    }
    case OP_O_SH_LIN: {
      auto *so = static_cast<const SharedObjs *>(c.w.shobj);
      const SpV *xs = ref_sp(c, op.b);
      if (!so || !xs) return true;
      std::visit(
          [&](const auto &x) {
            uint64_t got = 0;
            libcall(out, [&] {
              T val = (op.a % 2) ? so->i(x) : so->h(x);
              sim::Exempt e;
              got = val.bits();
            });
            out.obs = hmix(out.obs, got);
          },
          *xs);
      return true;
    }
    default:
      return false;
  }
}

}  // namespace simw
