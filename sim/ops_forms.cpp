// Bilinear and linear forms.
#include "recipes.h"

namespace simw {

namespace integ = bspline::integration;

constexpr int N_BILIN = 8;
constexpr int FIRST_FACTOR_BILIN = 6;

template <class F>
static void with_plain_bilin(int r, const T &s, F &&f) {
  using namespace bspline::operators;
  switch (r) {
    case 0: f(integ::ScalarProduct{}); break;
    case 1: f(integ::BilinearForm{Dx<2>{}}); break;
    case 2: f(integ::BilinearForm{Dx<1>{}, Dx<1>{}}); break;
    case 3: f(integ::BilinearForm{X<1>{}, IdentityOperator{}}); break;
    case 4: f(integ::BilinearForm{s * X<2>{}}); break;
    default: f(integ::BilinearForm{0.5 * (-Dx<2>{} + X<2>{})}); break;
  }
}
template <class V, class F>
static void with_factor_bilin(int r, const V &v, F &&f) {
  using namespace bspline::operators;
  if (r == FIRST_FACTOR_BILIN) f(integ::BilinearForm{SplineOperator{v}});
  else f(integ::BilinearForm{Dx<1>{}, SplineOperator{v} * X<1>{}});
}

bool exec_forms(ExecCtx &c) {
  const Op &op = c.op;
  Outcome &out = c.out;
  switch (op.kind) {
    case OP_O_BILIN: {
      const SpV *xs = ref_sp(c, op.b), *ys = ref_sp(c, op.c);
      if (!xs || !ys) return true;
      int r = op.a % N_BILIN;
      if (r < FIRST_FACTOR_BILIN) {
        T s = scalar_choice(op.d);
        std::visit(
            [&](const auto &x, const auto &y) {
              using Y = std::decay_t<decltype(y)>;
              bool same = grids_logically_equal(x.getSupport().getGrid(), y.getSupport().getGrid());
              bool distinct = same && !same_grid_object(x, y);
              if (same) probe_placement(x.getSupport(), y.getSupport());
              c08_note(E_BILIN, x.getSupport().getGrid(), y.getSupport().getGrid());
              uint64_t got = 0;
              if (!same) sim::g_cur->note = 1;
              const int cx = value_cat(c, xs, 0, false), cy = value_cat(c, ys, 1, false);
              libcall(out, [&] {
                with_plain_bilin(r, s, [&](auto &&bf) {
                  as_cat(cx, x, [&](auto &&xx) {
                    as_cat(cy, y, [&](auto &&yy) {
                      T v = bf(SIM_FWD(xx), SIM_FWD(yy));
                      sim::Exempt e;
                      got = v.bits();
                    });
                  });
                });
              });
              out.obs = hmix(out.obs, got);
              c08_check(c, !same, true, distinct, "BilinearForm::evaluate");
              if (distinct && out.status == ST_OK) {
                sim::Exempt e;
                try {
                  using X = std::decay_t<decltype(x)>;
                  const Grid &gx = x.getSupport().getGrid();
                  X xf(Support(gx, x.getSupport().getStartIndex(), x.getSupport().getEndIndex()), x.getCoefficients());
                  Y yo(Support(y.getSupport().getGrid(), y.getSupport().getStartIndex(), y.getSupport().getEndIndex()),
                       y.getCoefficients());
                  Y ys2(Support(gx, y.getSupport().getStartIndex(), y.getSupport().getEndIndex()), y.getCoefficients());
                  uint64_t h1 = 0, h2 = 0;
                  with_plain_bilin(r, s, [&](auto &&bf) { h1 = bf(xf, yo).bits(); });
                  with_plain_bilin(r, s, [&](auto &&bf) { h2 = bf(xf, ys2).bits(); });
                  probe(PR_TWIN_COMPARED);
                  if (h1 != h2)
                    add_violation(c, "C08", "equal-grid-result-differs", "BilinearForm", "BilinearForm::evaluate");
                } catch (const std::exception &) {
                }
              }
            },
            *xs, *ys);
        return true;
      }
      const SpV *vs = ref_sp_maxorder(c, op.d, MAXFACT);
      if (!vs) return true;
      std::visit(
          [&](const auto &x, const auto &y, const auto &v) {
            using V = std::decay_t<decltype(v)>;
            if constexpr (V::spline_order <= MAXFACT) {
              bool same = grids_logically_equal(x.getSupport().getGrid(), y.getSupport().getGrid());
              bool vsame = grids_logically_equal(x.getSupport().getGrid(), v.getSupport().getGrid());
              bool overlap = false;
              if (same) {
                sim::Exempt e;
                size_t lo = std::max(x.getSupport().getStartIndex(), y.getSupport().getStartIndex());
                size_t hi = std::min(x.getSupport().getEndIndex(), y.getSupport().getEndIndex());
                overlap = hi > lo + 1;
              }
              uint64_t got = 0;
              if (!same || (overlap && !vsame)) sim::g_cur->note = 1;
              libcall(out, [&] {
                with_factor_bilin(r, v, [&](auto &&bf) {
                  T val = bf(x, y);
                  sim::Exempt e;
                  got = val.bits();
                });
              });
              out.obs = hmix(out.obs, got);
              if (!same) {
                c08_note(E_BILIN, x.getSupport().getGrid(), y.getSupport().getGrid());
                c08_check(c, true, true, false, "BilinearForm::evaluate");
              } else if (overlap) {
                c08_note(E_BILIN_FACTOR, x.getSupport().getGrid(), v.getSupport().getGrid());
                c08_check(c, !vsame, true, false, "SplineOperator::transform");
              }
            }
          },
          *xs, *ys, *vs);
      return true;
    }
    case OP_O_LIN: {
      const SpV *xs = ref_sp(c, op.b);
      if (!xs) return true;
      int r = op.a % N_RECIPES;
      if (!recipe_has_factor(r)) {
        T s = scalar_choice(op.d);
        std::visit(
            [&](const auto &x) {
              uint64_t got = 0;
              const int cx = value_cat(c, xs, 0, false);
              libcall(out, [&] {
                with_plain_recipe(r, s, [&](auto &&o) {
                  as_cat(cx, x, [&](auto &&xx) {
                    T v = integ::LinearForm{std::move(o)}(SIM_FWD(xx));
                    sim::Exempt e;
                    got = v.bits();
                  });
                });
              });
              out.obs = hmix(out.obs, got);
            },
            *xs);
        return true;
      }
      const SpV *vs = ref_sp_maxorder(c, op.d, MAXFACT);
      if (!vs) return true;
      const T fs = scalar_choice(1 + (op.a / N_RECIPES) % 11);  // non-zero
      std::visit(
          [&](const auto &x, const auto &v) {
            using V = std::decay_t<decltype(v)>;
            if constexpr (V::spline_order <= MAXFACT) {
              bool same = grids_logically_equal(x.getSupport().getGrid(), v.getSupport().getGrid());
              bool has_int;
              {
                sim::Exempt e;
                has_int = x.getSupport().numberOfIntervals() > 0;
              }
              uint64_t got = 0;
              if (has_int && !same) sim::g_cur->note = 1;
              libcall(out, [&] {
                with_factor_recipe(r, v, fs, [&](auto &&o) {
                  T val = integ::LinearForm{std::move(o)}(x);
                  sim::Exempt e;
                  got = val.bits();
                });
              });
              out.obs = hmix(out.obs, got);
              if (has_int) {
                c08_note(E_LIN_FACTOR, x.getSupport().getGrid(), v.getSupport().getGrid());
                c08_check(c, !same, true, false, "SplineOperator::transform");
              }
            }
          },
          *xs, *vs);
      return true;
    }
    default:
      return false;
  }
}

}  // namespace simw
