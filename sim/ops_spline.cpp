// Spline lifecycle, evaluation and predicates.
#include "ops_util.h"

namespace simw {

using bspline::exceptions::BSplineException;

// coefficient values: small dyadic rationals; some all-zero polynomials
template <size_t k>
static std::vector<std::array<T, k + 1>> make_coeffs(size_t nint, uint32_t seed) {
  sim::Exempt e;
  sim::Rng r(sim::mix3(seed, 0xc0ef, k));
  std::vector<std::array<T, k + 1>> cs;
  cs.reserve(nint);
  bool all_zero = (seed % 11) == 0;
  for (size_t i = 0; i < nint; i++) {
    std::array<T, k + 1> a;
    bool zero_here = all_zero || r.below(9) == 0;
    for (size_t j = 0; j <= k; j++) {
      int num = zero_here ? 0 : r.range(-8, 8);
#ifdef SIM_EXACT
      a[j] = T::make(Val(num) / Val(4));
#else
      a[j] = T::make(num / 4.0);
#endif
    }
    cs.push_back(a);
  }
  return cs;
}

template <class F>
static void with_order(size_t k, F &&f) {
  switch (k % (MAXORD + 1)) {
    case 0: f(std::integral_constant<size_t, 0>{}); break;
    case 1: f(std::integral_constant<size_t, 1>{}); break;
    case 2: f(std::integral_constant<size_t, 2>{}); break;
    case 3: f(std::integral_constant<size_t, 3>{}); break;
#if SIM_MAXORD >= 4
    case 4: f(std::integral_constant<size_t, 4>{}); break;
#endif
  }
}

template <size_t k>
static void moved_from_check(ExecCtx &c, const Sp<k> &src, uint64_t grid_hash,
                             const char *site) {
  sim::Exempt e;
  std::vector<Violation> tmp;
  check_spline_invariants(src, tmp, "moved-from");
  for (auto &v : tmp) {
    v.site = site;
    c.out.viol.push_back(v);
  }
  if (!tmp.empty()) return;
  if (src.getSupport().containsIntervals() || !src.getCoefficients().empty())
    add_violation(c, "C10", "moved-from-not-interval-free",
                  "moved-from spline keeps " + std::to_string(src.getSupport().numberOfIntervals()) +
                      " intervals", site);
  else if (hash_points(src.getSupport().getGrid()) != grid_hash)
    add_violation(c, "C10", "moved-from-grid-changed", "spline", site);
}

static std::vector<T> eval_points(const Grid &g, uint32_t sel) {
  sim::Exempt e;
  std::vector<T> xs;
  auto d = g.getData();
  size_t n = d->size();
  size_t i = sel % n;
  const Val &x = (*d)[i].raw();
  switch ((sel / 16) % 6) {
    case 0: xs.push_back(T::make(x)); break;  // a grid point
    case 1: xs.push_back(T::make(i + 1 < n ? Val((x + (*d)[i + 1].raw()) / Val(2)) : x)); break;
    case 2: xs.push_back(T::make(Val((*d)[0].raw() - Val(1) / Val(1024)))); break;   // just outside
    case 3: xs.push_back(T::make(Val((*d)[n - 1].raw() + Val(1) / Val(1024)))); break;
    case 4: xs.push_back(T::make(Val(x + Val(1000000)))); break;  // far outside
    default: xs.push_back(T::make(i + 1 < n ? Val(x + ((*d)[i + 1].raw() - x) / Val(8)) : x)); break;
  }
  return xs;
}

bool exec_spline(ExecCtx &c) {
  const Op &op = c.op;
  Pool &P = c.pool;
  Outcome &out = c.out;
  switch (op.kind) {
    case OP_P_NEW:
    case OP_P_BAD: {
      const Support *sup = ref_sup(c, op.kind == OP_P_NEW ? op.b : op.a);
      if (!sup) return true;
      size_t ni;
      {
        sim::Exempt e;
        ni = sup->numberOfIntervals();
      }
      size_t count = ni;
      if (op.kind == OP_P_BAD) {
        uint32_t d = op.c % 3;
        count = d == 0 ? ni + 1 : d == 1 ? (ni ? ni - 1 : 2) : ni + 3;
      }
      int dst = (op.kind == OP_P_NEW ? op.a : op.d) % NP;
      with_order(op.kind == OP_P_NEW ? op.c : op.b, [&](auto K) {
        constexpr size_t k = decltype(K)::value;
        auto cs = make_coeffs<k>(count, op.kind == OP_P_NEW ? op.d : op.c * 7 + 1);
        std::optional<Sp<k>> tmp;
        libcall(out, [&] { tmp.emplace(*sup, std::move(cs)); });
        if (tmp) store_result(c, dst, std::move(*tmp));
        sim::LibRegion lr;
        tmp.reset();
      });
      return true;
    }
    case OP_P_EMPTY: {
      const Grid *g = ref_grid(c, op.b);
      if (!g) return true;
      int dst = op.a % NP;
      with_order(op.c, [&](auto K) {
        constexpr size_t k = decltype(K)::value;
        std::optional<Sp<k>> tmp;
        libcall(out, [&] { tmp.emplace(*g); });
        if (tmp) store_result(c, dst, std::move(*tmp));
      });
      return true;
    }
    case OP_P_COPY: {
      const SpV *src = ref_sp(c, op.b);
      if (!src) return true;
      int dst = op.a % NP;
      std::visit(
          [&](const auto &s) {
            using S = std::decay_t<decltype(s)>;
            std::optional<S> tmp;
            const int cs = value_cat(c, src, 0, false);
            libcall(out, [&] { as_cat(cs, s, [&](auto &&ss) { tmp.emplace(SIM_FWD(ss)); }); });
            if (tmp) store_result(c, dst, std::move(*tmp));
            sim::LibRegion lr;
            tmp.reset();
          },
          *src);
      return true;
    }
    case OP_P_ASSIGN:
    case OP_P_XASSIGN: {
      int slot = -1;
      SpV *dst = own_sp(c, op.a, &slot);
      if (!dst) return true;
      size_t kd = dst->index();
      const SpV *src = op.kind == OP_P_XASSIGN && kd > 0
                           ? ref_sp_maxorder(c, op.b, kd - 1)
                           : ref_sp_maxorder(c, op.b, kd);
      if (!src) return true;
      out.target = SLOT_P0 + slot;
      if (src == dst) probe(PR_SELF_ASSIGN);
      std::visit(
          [&](auto &d, const auto &s) {
            using D = std::decay_t<decltype(d)>;
            using S = std::decay_t<decltype(s)>;
            if constexpr (S::spline_order <= D::spline_order) {
              if constexpr (S::spline_order < D::spline_order) probe(PR_MIXED_ORDER);
#ifdef SIM_EXACT
              Fn expect = fn_of(s);
#endif
              sim::g_cur->note = 2;
              const int cs = src == dst ? (int)CAT_CONST : value_cat(c, src, 0, false);
              libcall(out, [&] { as_cat(cs, s, [&](auto &&ss) { d = SIM_FWD(ss); }); });
              if ((out.status == ST_BSPLINE || out.status == ST_OTHER_EXC) && !fault_fired())
                add_violation(c, "C03", "valid-call-threw", "assignment threw " + std::string(status_name(out.status)),
                              "Spline::operator=");
              if (out.status == ST_OK) {
                out.obs = hmix(out.obs, hash_spline(d));
#ifdef SIM_EXACT
                probe(PR_C03_COMPARED);
                if (!fn_equal(fn_of(d), expect))
                  add_violation(c, "C03", "assignment-changes-function",
                                "order " + std::to_string(S::spline_order) + " -> " +
                                    std::to_string(D::spline_order) + ": expected " + fn_str(expect) +
                                    " got " + fn_str(fn_of(d)),
                                S::spline_order < D::spline_order ? "Spline::operator=(lower order)"
                                                                  : "Spline::operator=");
#endif
              }
            }
          },
          *dst, *src);
      return true;
    }
    case OP_P_MOVE: {
      int sslot = -1;
      SpV *src = own_sp(c, op.b, &sslot);
      if (!src) return true;
      int dst = op.a % NP;
      std::visit(
          [&](auto &s) {
            using S = std::decay_t<decltype(s)>;
            uint64_t gh = hash_points(s.getSupport().getGrid());
            std::optional<S> tmp;
            libcall(out, [&] { tmp.emplace(std::move(s)); });
            if (out.status == ST_OK) moved_from_check(c, s, gh, "Spline(Spline&&)");
            if (tmp) store_result(c, dst, std::move(*tmp));
            out.target2 = SLOT_P0 + sslot;
          },
          *src);
      return true;
    }
    case OP_P_MOVE_ASSIGN: {
      int dslot = -1, sslot = -1;
      SpV *dst = own_sp(c, op.a, &dslot);
      if (!dst) return true;
      // source: an own spline of the same order
      SpV *src = nullptr;
      for (int k = 0; k < NP; k++) {
        int i = (int)((op.b + k) % NP);
        if (P.p[i] && P.p[i]->index() == dst->index()) {
          src = &*P.p[i];
          sslot = i;
          break;
        }
      }
      if (!src) return true;
      out.target = SLOT_P0 + dslot;
      out.target2 = SLOT_P0 + sslot;
      std::visit(
          [&](auto &d) {
            using D = std::decay_t<decltype(d)>;
            D &s = std::get<D>(*src);
            uint64_t gh = hash_points(s.getSupport().getGrid());
            bool self = &s == &d;
            libcall(out, [&] { d = std::move(s); });
            if (out.status == ST_OK) {
              out.obs = hmix(out.obs, hash_spline(d));
              if (!self) moved_from_check(c, s, gh, "Spline::operator=(Spline&&)");
            }
          },
          *dst);
      return true;
    }
    case OP_P_DROP: {
      int slot = op.a % NP;
      if (!P.p[slot]) return true;
      out.target = SLOT_P0 + slot;
      if (c.task >= 0) {
        sim::Exempt e;
        long uc = std::visit([](const auto &s) { return s.getSupport().getGrid().getData().use_count(); }, *P.p[slot]);
        if (uc == 2) probe(PR_LAST_OWNER_TASK);  // this task destroys the grid storage
      }
      libcall(out, [&] { P.p[slot].reset(); });
      return true;
    }
    case OP_P_EVAL: {
      const SpV *s = ref_sp(c, op.a);
      if (!s) return true;
      std::visit(
          [&](const auto &sp) {
            std::vector<T> xs = eval_points(sp.getSupport().getGrid(), op.b);
            uint64_t h = 0;
            libcall(out, [&] {
              for (const T &x : xs) {
                T y = sp(x);
                sim::Exempt e;
                h = hmix(h, y.bits());
              }
            });
            out.obs = hmix(out.obs, h);
          },
          *s);
      return true;
    }
    case OP_P_FRONTBACK: {
      const SpV *s = ref_sp(c, op.a);
      if (!s) return true;
      std::visit(
          [&](const auto &sp) {
            uint64_t h = 0;
            bool has;
            {
              sim::Exempt e;
              has = !sp.getSupport().empty();
            }
            libcall(out, [&] {
              const T &f = sp.front();
              const T &b = sp.back();
              sim::Exempt e;
              h = hmix(f.bits(), b.bits());
            });
            out.obs = hmix(out.obs, h);
            if (!has && out.status == ST_OK)
              add_violation(c, "C09", "checked-accessor-no-throw",
                            "Spline::front()/back() of an empty spline did not throw", "Spline::front/back");
          },
          *s);
      return true;
    }
    case OP_P_ISZERO: {
      const SpV *s = ref_sp(c, op.a);
      if (!s) return true;
      std::visit(
          [&](const auto &sp) {
            bool z = false;
            libcall(out, [&] { z = sp.isZero(); });
            out.obs = hmix(out.obs, z);
          },
          *s);
      return true;
    }
    case OP_P_OVERLAP: {
      const SpV *a = ref_sp(c, op.a), *b = ref_sp(c, op.b);
      if (!a || !b) return true;
      std::visit(
          [&](const auto &x, const auto &y) {
            bool r = false;
            libcall(out, [&] { r = x.checkOverlap(y); });
            out.obs = hmix(out.obs, r);
          },
          *a, *b);
      return true;
    }
    case OP_P_EQ: {
      const SpV *a = ref_sp(c, op.a);
      if (!a) return true;
      // same-order partner
      const SpV *b = nullptr;
      {
        Pool *sh = &P == &c.w.shared ? nullptr : &c.w.shared;
        size_t n1 = P.p.size(), n = n1 + (sh ? sh->p.size() : 0);
        for (size_t k = 0; k < n && !b; k++) {
          size_t i = (op.b + k) % n;
          const std::optional<SpV> &o = i < n1 ? P.p[i] : sh->p[i - n1];
          if (o && o->index() == a->index()) b = &*o;
        }
      }
      if (!b) return true;
      std::visit(
          [&](const auto &x) {
            using X = std::decay_t<decltype(x)>;
            const X &y = std::get<X>(*b);
            bool eq = false, ne = false;
            libcall(out, [&] {
              eq = (x == y);
              ne = (x != y);
            });
            out.obs = hmix(out.obs, eq * 2 + ne);
          },
          *a);
      return true;
    }
    default:
      return false;
  }
}

}  // namespace simw
