// B-spline generator, interpolation (harness-supplied exact solver) and
// numerical integration on plain-double twins.
#include "ops_util.h"

#include <bspline/integration/numerical.h>

namespace simw {

using bspline::exceptions::BSplineException;

// knots: the points of a grid with a multiplicity pattern
static std::vector<T> make_knots(const Grid &g, uint32_t pattern) {
  sim::Exempt e;
  std::vector<T> k;
  auto d = g.getData();
  sim::Rng r(sim::mix3(pattern, 0x6e075, 0));
  uint32_t style = pattern % 4;
  for (size_t i = 0; i < d->size(); i++) {
    int m = 1;
    if (style == 1 && (i == 0 || i + 1 == d->size())) m = 1 + (int)r.below(4);
    else if (style == 2) m = 1 + (int)r.below(3);
    else if (style == 3 && r.below(3) == 0) m = 2;
    for (int j = 0; j < m; j++) k.push_back((*d)[i]);
  }
  return k;
}

template <class F>
static void with_gen_order(size_t k, F &&f) {
  switch (k % (MAXORD + 1)) {
    case 0: f(std::integral_constant<size_t, 0>{}); break;
    case 1: f(std::integral_constant<size_t, 1>{}); break;
    case 2: f(std::integral_constant<size_t, 2>{}); break;
    case 3: f(std::integral_constant<size_t, 3>{}); break;
#if SIM_MAXORD >= 4
    case 4: f(std::integral_constant<size_t, 4>{}); break;
#endif
  }
}

bool exec_gen(ExecCtx &c) {
  const Op &op = c.op;
  Pool &P = c.pool;
  Outcome &out = c.out;
  switch (op.kind) {
    case OP_N_NEW:
    case OP_N_BAD: {
      const Grid *g = ref_grid(c, op.d);
      if (!g) return true;
      std::vector<T> knots = make_knots(*g, op.b);
      int dst = op.a % NGEN;
      uint32_t route = op.c % 3;  // 0: knots only, 1: knots + same grid, 2: knots + other grid
      const Grid *supplied = g;
      if (route == 2) supplied = ref_grid(c, op.d + 1 + op.c / 3);
      if (!supplied) supplied = g;
      if (op.kind == OP_N_BAD) {
        sim::Exempt e;
        switch (op.b % 3) {
          case 0: if (knots.size() >= 2) std::swap(knots.front(), knots.back()); break;  // decreasing
          case 1: knots.resize(1); break;                                                  // too short
          default: knots.assign(3, knots.front()); break;                                  // one distinct value
        }
      }
      bool differ = route != 0 && !grids_logically_equal(*g, *supplied);
      std::optional<Gen> tmp;
      if (op.kind == OP_N_NEW && differ) sim::g_cur->note = 1;
      libcall(out, [&] {
        if (route == 0) tmp.emplace(knots);
        else tmp.emplace(knots, *supplied);
      });
      if (op.kind == OP_N_NEW && route != 0) c08_note(E_GENERATOR, *g, *supplied);
      if (op.kind == OP_N_NEW && route != 0)
        c08_check(c, differ, true, !differ && supplied->getData() != g->getData(),
                  "BSplineGenerator(knots, grid)", true);
      if (tmp) {
        sim::Exempt e;
        out.obs = hmix(out.obs, hash_grid(tmp->getGrid()));
        P.gen[dst].emplace(*tmp);
        out.target = SLOT_GEN0 + dst;
      }
      sim::LibRegion lr;
      tmp.reset();
      return true;
    }
    case OP_N_GEN: {
      const Gen *g = ref_gen(c, op.a);
      if (!g) return true;
      int dst = op.c % NP;
      with_gen_order(op.b, [&](auto K) {
        constexpr size_t k = decltype(K)::value;
        std::optional<std::vector<Sp<k>>> res;
        if (op.a % 5 == 4) {
          // the convenience function: builds its own generator from the knots
          std::vector<T> knots;
          {
            sim::Exempt e;
            knots = make_knots(g->getGrid(), op.d);
          }
          libcall(out, [&] { res.emplace(bspline::generateBSplines<k>(knots)); });
        } else {
          libcall(out, [&] { res.emplace(g->template generateBSplines<k>()); });
        }
        if (res) {
          {
            sim::Exempt e;
            out.obs = hmix(out.obs, res->size());
            for (const auto &s : *res) {
              out.obs = hmix(out.obs, hash_spline(s));
              check_spline_invariants(s, out.viol, "generated");
            }
            for (auto &v : out.viol)
              if (v.site.empty()) v.site = "BSplineGenerator::generateBSplines";
          }
          if (!res->empty()) {
            Sp<k> keep = (*res)[op.d % res->size()];
            store_result(c, dst, std::move(keep));
          }
          sim::LibRegion lr;
          res.reset();
        }
      });
      return true;
    }
    case OP_N_COPY: {
      const Gen *src = ref_gen(c, op.b);
      if (!src) return true;
      int dst = op.a % NGEN;
      std::optional<Gen> tmp;
      const int cs = value_cat(c, src, 0, false);
      libcall(out, [&] { as_lv(cs, *src, [&](auto &&ss) { tmp.emplace(SIM_FWD(ss)); }); });
      if (tmp) {
        sim::Exempt e;
        P.gen[dst].emplace(*tmp);
        out.target = SLOT_GEN0 + dst;
      }
      sim::LibRegion lr;
      tmp.reset();
      return true;
    }
    case OP_N_ASSIGN: {
      // copy assignment of a generator (including g = g through a reference):
      // an assignment applied to an object - C14 demands the target unchanged
      // if it throws and the source unchanged always
      int slot = op.a % NGEN;
      if (!P.gen[slot]) return true;
      const Gen *src = ref_gen(c, op.b);
      if (!src) return true;
      if constexpr (std::is_copy_assignable_v<Gen>) {
        out.target = SLOT_GEN0 + slot;
        if (src == &*P.gen[slot]) probe(PR_SELF_ASSIGN);
        libcall(out, [&] { *P.gen[slot] = *src; });
      }
      return true;
    }
    case OP_N_DROP: {
      int slot = op.a % NGEN;
      if (!P.gen[slot]) return true;
      out.target = SLOT_GEN0 + slot;
      libcall(out, [&] { P.gen[slot].reset(); });
      return true;
    }
    default:
      return false;
  }
}

// ------------------------------------------------------------------ interpolation
struct SolverSingular final : std::exception {
  const char *what() const noexcept override { return "singular system"; }
};

// Dense Gaussian elimination on T. Caller-supplied code from the library's
// point of view: every entry is a callback yield/fault point; its own
// arithmetic is exempt.
class SimSolver final : public bspline::interpolation::internal::ISolver<T> {
  size_t n;
  std::vector<T> m, rhs, sol;
  struct Alloc {
    sim::Exempt e;
  };

 public:
  explicit SimSolver(size_t problemsize) : n(problemsize) {
    sim::tick_callback();
    sim::Exempt e;
    T zero = T::make(Val(0));
    m.assign(n * n, zero);
    rhs.assign(n, zero);
  }
  ~SimSolver() override {
    sim::Exempt e;
    m.clear(); m.shrink_to_fit();
    rhs.clear(); rhs.shrink_to_fit();
    sol.clear(); sol.shrink_to_fit();
  }
  T &M(size_t i, size_t j) override {
    sim::tick_callback();
    return m.at(i * n + j);
  }
  T &b(size_t i) override {
    sim::tick_callback();
    return rhs.at(i);
  }
  T &x(size_t i) override {
    sim::tick_callback();
    return sol.at(i);
  }
  void solve() override {
    sim::tick_callback();
    sim::Exempt e;
    std::vector<Val> a(n * n), bb(n);
    for (size_t i = 0; i < n * n; i++) a[i] = m[i].raw();
    for (size_t i = 0; i < n; i++) bb[i] = rhs[i].raw();
    for (size_t col = 0; col < n; col++) {
      size_t piv = col;
      auto mag = [](const Val &v) { return v < Val(0) ? Val(-v) : v; };
      for (size_t r = col + 1; r < n; r++)
        if (mag(a[r * n + col]) > mag(a[piv * n + col])) piv = r;
      if (a[piv * n + col] == Val(0) || !(a[piv * n + col] == a[piv * n + col])) throw SolverSingular();
      if (piv != col) {
        for (size_t k = 0; k < n; k++) std::swap(a[piv * n + k], a[col * n + k]);
        std::swap(bb[piv], bb[col]);
      }
      for (size_t r = col + 1; r < n; r++) {
        if (a[r * n + col] == Val(0)) continue;
        Val f = a[r * n + col] / a[col * n + col];
        for (size_t k = col; k < n; k++) a[r * n + k] -= f * a[col * n + k];
        bb[r] -= f * bb[col];
      }
    }
    std::vector<Val> xs(n);
    for (size_t i = n; i-- > 0;) {
      Val s = bb[i];
      for (size_t k = i + 1; k < n; k++) s -= a[i * n + k] * xs[k];
      xs[i] = s / a[i * n + i];
    }
    sol.clear();
    for (size_t i = 0; i < n; i++) sol.push_back(T::make(xs[i]));
  }
};

bool exec_interp(ExecCtx &c) {
  const Op &op = c.op;
  Outcome &out = c.out;
  if (op.kind != OP_I_INTERP) return false;
  const Support *sup = ref_sup(c, op.b);
  if (!sup) return true;
  size_t npts;
  {
    sim::Exempt e;
    npts = sup->getEndIndex() - sup->getStartIndex();
  }
  int dst = op.a % NP;
  std::vector<T> y;
  {
    sim::Exempt e;
    sim::Rng r(sim::mix3(op.d, 0x1e7, 0));
    size_t ny = npts;
    if (op.d % 17 == 0) ny = npts + 1;  // a failing call (count mismatch)
    for (size_t i = 0; i < ny; i++) y.push_back(scalar_choice(r.below(12)));
  }
  auto run = [&](auto K) {
    constexpr size_t k = decltype(K)::value;
    namespace ip = bspline::interpolation;
    std::optional<Sp<k>> res;
    // boundary conditions: default, or k-1 caller-chosen ones (occasionally an
    // inadmissible derivative order: a failing call after the solver exists)
    std::array<ip::Boundary<T>, k - 1> bounds = ip::internal::defaultBoundaries<T, k>();
    bool custom = (op.c / 4) % 3 != 0;
    if (custom) {
      sim::Exempt e;
      sim::Rng r(sim::mix3(op.c, 0xb0d, op.d));
      for (size_t i = 0; i + 1 < k; i++) {
        bounds[i].node = r.below(2) ? ip::Node::FIRST : ip::Node::LAST;
        bounds[i].derivative = 1 + r.below((uint32_t)k);
        if (r.below(16) == 0) bounds[i].derivative = r.below(2) ? 0 : k + 1;
        bounds[i].value = scalar_choice(r.below(12));
      }
    }
    libcall(out, [&] {
      try {
        if (custom) res.emplace(ip::interpolate<T, k, SimSolver>(*sup, y, bounds));
        else res.emplace(ip::interpolate<T, k, SimSolver>(*sup, y));
      } catch (const SolverSingular &) {
        throw sim::CallbackFault();
      }
    });
    if (out.status == ST_CALLBACK && !fault_fired()) out.status = ST_SOLVER;
    if (res) store_result(c, dst, std::move(*res));
  };
  switch (1 + op.c % (MAXORD < 3 ? MAXORD : 3)) {
    case 1: run(std::integral_constant<size_t, 1>{}); break;
    case 2: run(std::integral_constant<size_t, 2>{}); break;
    default: run(std::integral_constant<size_t, 3>{}); break;
  }
  return true;
}

// ------------------------------------------------------------------ numerical
// integrate<n> needs a floating-point type boost's quadrature understands, so
// it runs on plain-double twins of the pool objects (allocator seam and the
// caller-supplied weight function remain yield/fault points).
template <size_t k>
static bspline::Spline<double, k> twin_of(const Sp<k> &s, const bspline::support::Grid<double> &g) {
  std::vector<std::array<double, k + 1>> cs;
  for (const auto &a : s.getCoefficients()) {
    std::array<double, k + 1> b;
    for (size_t i = 0; i <= k; i++) b[i] = static_cast<double>(a[i].raw());
    cs.push_back(b);
  }
  return bspline::Spline<double, k>(
      bspline::support::Support<double>(g, s.getSupport().getStartIndex(), s.getSupport().getEndIndex()),
      std::move(cs));
}
static bspline::support::Grid<double> twin_grid(const Grid &g) {
  std::vector<double> pts;
  for (const auto &x : *g.getData()) pts.push_back(static_cast<double>(x.raw()));
  return bspline::support::Grid<double>(std::move(pts));
}

bool exec_numint(ExecCtx &c) {
  const Op &op = c.op;
  Outcome &out = c.out;
  if (op.kind != OP_Q_NUMINT) return false;
  const SpV *xs = ref_sp(c, op.a), *ys = ref_sp(c, op.b);
  if (!xs || !ys) return true;
  std::visit(
      [&](const auto &x, const auto &y) {
        using X = std::decay_t<decltype(x)>;
        using Y = std::decay_t<decltype(y)>;
        // keep the instantiation count down: orders <= 2 only
        if constexpr (X::spline_order <= 2 && Y::spline_order <= 2) {
          bool same = grids_logically_equal(x.getSupport().getGrid(), y.getSupport().getGrid());
          bool distinct = same && !same_grid_object(x, y);
          std::optional<bspline::Spline<double, X::spline_order>> tx;
          std::optional<bspline::Spline<double, Y::spline_order>> ty;
          {
            sim::Exempt e;
            auto gx = twin_grid(x.getSupport().getGrid());
            tx.emplace(twin_of(x, gx));
            if (same && !distinct) ty.emplace(twin_of(y, gx));
            else ty.emplace(twin_of(y, twin_grid(y.getSupport().getGrid())));
          }
          uint32_t deg = op.c % 3;
          double got = 0;
          if (!same) sim::g_cur->note = 1;
          libcall(out, [&] {
            auto f = [deg](const double &t) {
              sim::tick_callback();
              return deg == 0 ? 1.0 : deg == 1 ? t : t * t;
            };
            if (op.d % 2) got = bspline::integration::integrate<3>(f, *tx, *ty);
            else got = bspline::integration::integrate<5>(f, *tx, *ty);
          });
          uint64_t bits;
          memcpy(&bits, &got, 8);
          out.obs = hmix(out.obs, bits);
          c08_note(E_NUMINT, x.getSupport().getGrid(), y.getSupport().getGrid());
          c08_check(c, !same, true, distinct, "integration::integrate");
          sim::Exempt e;
          tx.reset();
          ty.reset();
        }
      },
      *xs, *ys);
  return true;
}

}  // namespace simw
