// Simulator core. Compiled without -fsanitize=thread in every flavour.
#include "core.h"

#include <cxxabi.h>
#include <elf.h>
#include <fcntl.h>
#include <link.h>
#include <pthread.h>
#include <signal.h>
#include <sys/mman.h>
#include <ucontext.h>
#include <unistd.h>

#include <cstdio>
#include <cstdlib>
#include <cstring>
#include <new>

#if defined(SIM_ASAN)
#include <sanitizer/common_interface_defs.h>
#endif
#if defined(SIM_TSAN)
extern "C" {
void *__tsan_get_current_fiber(void);
void *__tsan_create_fiber(unsigned flags);
void __tsan_destroy_fiber(void *fiber);
void __tsan_switch_to_fiber(void *fiber, unsigned flags);
void __tsan_acquire(void *addr);
void __tsan_release(void *addr);
}
static const unsigned kTsanNoSync = 1;  // __tsan_switch_to_fiber_no_sync
#endif
#if defined(SIM_VG)
#include <valgrind/valgrind.h>
#endif

namespace sim {

static TaskCtl g_main_ctl;
TaskCtl *g_cur = &g_main_ctl;

// ------------------------------------------------------------------ fibers
static const size_t kStackSize = 1024 * 1024;
static const size_t kMaxLog = 1 << 18;  // recorded switches per run

struct Fiber {
  ucontext_t ctx;
  char *stack = nullptr;  // usable bottom
  size_t stack_size = 0;
  void *tsan_fiber = nullptr;
  void *asan_fake = nullptr;
  unsigned vg_id = 0;
  uint64_t eh[2] = {};  // saved __cxa_eh_globals
  unsigned char *tls = nullptr;  // saved copies of the library's thread_local variables
};

enum TState { T_READY, T_BLOCKED, T_DONE };

struct Task {
  TaskCtl ctl;
  Fiber fb;
  TState st = T_READY;
  int prio = 0;
  size_t script_cursor = 0;
};

static const int kMaxTasks = 8;
static SchedStats g_dummy_stats;

struct SchedState {
  bool active = false;
  int n = 0;
  Task tasks[kMaxTasks];
  Fiber main_fb;
  int cur = -1;
  SchedConfig cfg;
  SchedStats *stats = &g_dummy_stats;
  std::vector<SwitchRec> *log = nullptr;
  Rng rng;
  int64_t countdown = 0;
  std::vector<uint64_t> pct_points;
  int pct_low = 0;
  int stall_task = -1;
  uint64_t stall_from = 0, stall_to = 0;
  TaskFn fn = nullptr;
  void *arg = nullptr;
  Task *starting = nullptr;
  size_t main_script_cursor = 0;
  uint32_t static_ticks = 0;
};
static SchedState S;

static char *g_stack_pool[kMaxTasks] = {};
static void *g_main_stack_bottom = nullptr;
static size_t g_main_stack_size = 0;

static char *get_stack(int i) {
  if (!g_stack_pool[i]) {
    size_t page = 4096;
    char *p = (char *)mmap(nullptr, kStackSize + page, PROT_READ | PROT_WRITE,
                           MAP_PRIVATE | MAP_ANONYMOUS | MAP_STACK, -1, 0);
    if (p == MAP_FAILED) {
      fprintf(stderr, "sim: mmap stack failed\n");
      _exit(2);
    }
    mprotect(p, page, PROT_NONE);
    g_stack_pool[i] = p + page;
  }
  return g_stack_pool[i];
}


// ------------------------------------------------------------------ thread_local
// All simulated caller threads share one OS thread and therefore one TLS block.
// A library that keeps per-thread state in thread_local variables (a legitimate
// way to be thread-safe) would see its "threads" share that state. The
// thread_local variables of the library under test - TLS symbols of this
// executable whose mangled name mentions the library's namespace, plus the
// per-TU __tls_guard flags - are therefore saved and restored on every fiber
// switch; a new task starts from the TLS initialisation image, as a new thread
// would. (Sanitizer runtimes keep their own state in the same TLS block, so the
// block cannot be swapped wholesale.)
struct TlsRange {
  size_t off, size;
};
static const int kMaxTlsRanges = 256;
static TlsRange g_tls_ranges[kMaxTlsRanges];
static int g_n_tls_ranges = 0;
static size_t g_tls_bytes = 0;
static unsigned char *g_tls_base = nullptr;         // address of TLS offset 0 in this thread
static const unsigned char *g_tls_image = nullptr;  // initialisation image
static size_t g_tls_filesz = 0;
static thread_local char sim_tls_anchor = 1;

static int tls_phdr_cb(struct dl_phdr_info *info, size_t, void *) {
  if (info->dlpi_name && info->dlpi_name[0]) return 0;  // main program only
  for (int i = 0; i < info->dlpi_phnum; i++)
    if (info->dlpi_phdr[i].p_type == PT_TLS) {
      g_tls_image = (const unsigned char *)(info->dlpi_addr + info->dlpi_phdr[i].p_vaddr);
      g_tls_filesz = info->dlpi_phdr[i].p_filesz;
    }
  return 1;
}

static void tls_discover() {
  int fd = open("/proc/self/exe", O_RDONLY);
  if (fd < 0) return;
  Elf64_Ehdr eh;
  if (pread(fd, &eh, sizeof eh, 0) != (ssize_t)sizeof eh) {
    close(fd);
    return;
  }
  size_t shsz = (size_t)eh.e_shnum * sizeof(Elf64_Shdr);
  Elf64_Shdr *sh = (Elf64_Shdr *)malloc(shsz);
  if (!sh || pread(fd, sh, shsz, (off_t)eh.e_shoff) != (ssize_t)shsz) {
    close(fd);
    return;
  }
  size_t anchor_off = (size_t)-1;
  for (int i = 0; i < eh.e_shnum; i++) {
    if (sh[i].sh_type != SHT_SYMTAB) continue;
    const Elf64_Shdr &st = sh[sh[i].sh_link];
    char *str = (char *)malloc(st.sh_size);
    Elf64_Sym *sym = (Elf64_Sym *)malloc(sh[i].sh_size);
    if (!str || !sym || pread(fd, str, st.sh_size, (off_t)st.sh_offset) != (ssize_t)st.sh_size ||
        pread(fd, sym, sh[i].sh_size, (off_t)sh[i].sh_offset) != (ssize_t)sh[i].sh_size)
      break;
    size_t n = sh[i].sh_size / sizeof(Elf64_Sym);
    for (size_t k = 0; k < n; k++) {
      if (ELF64_ST_TYPE(sym[k].st_info) != STT_TLS) continue;
      const char *name = str + sym[k].st_name;
      if (strstr(name, "sim_tls_anchor")) anchor_off = sym[k].st_value;
      bool lib = strstr(name, "bspline") != nullptr || strcmp(name, "__tls_guard") == 0;
      if (lib && sym[k].st_size > 0 && g_n_tls_ranges < kMaxTlsRanges) {
        g_tls_ranges[g_n_tls_ranges++] = TlsRange{(size_t)sym[k].st_value, (size_t)sym[k].st_size};
        g_tls_bytes += sym[k].st_size;
      }
    }
    free(str);
    free(sym);
  }
  free(sh);
  close(fd);
  if (anchor_off == (size_t)-1) {
    g_n_tls_ranges = 0;
    g_tls_bytes = 0;
    return;
  }
  g_tls_base = (unsigned char *)&sim_tls_anchor - anchor_off;
  dl_iterate_phdr(tls_phdr_cb, nullptr);
}
static void tls_fill_initial(unsigned char *save) {
  size_t pos = 0;
  for (int r = 0; r < g_n_tls_ranges; r++)
    for (size_t i = 0; i < g_tls_ranges[r].size; i++) {
      size_t off = g_tls_ranges[r].off + i;
      save[pos++] = (g_tls_image && off < g_tls_filesz) ? g_tls_image[off] : 0;
    }
}
static inline void tls_swap(unsigned char *out, const unsigned char *in) {
  size_t pos = 0;
  for (int r = 0; r < g_n_tls_ranges; r++) {
    volatile unsigned char *p = g_tls_base + g_tls_ranges[r].off;
    for (size_t i = 0; i < g_tls_ranges[r].size; i++, pos++) {
      out[pos] = p[i];
      p[i] = in[pos];
    }
  }
}
int tls_virtualised_variables() { return g_n_tls_ranges; }

static void fiber_switch(Fiber *from, Fiber *to, bool sync, bool from_dying) {
  // word copies, not memcpy: TSan intercepts libc even in this TU
  volatile uint64_t *eh = (volatile uint64_t *)abi::__cxa_get_globals();
  from->eh[0] = eh[0];
  from->eh[1] = eh[1];
  eh[0] = to->eh[0];
  eh[1] = to->eh[1];
  if (S.stats && (uint32_t)from->eh[1] != 0) S.stats->switches_in_exception++;
  if (g_n_tls_ranges > 0 && from->tls && to->tls) tls_swap(from->tls, to->tls);
#if defined(SIM_ASAN)
  __sanitizer_start_switch_fiber(from_dying ? nullptr : &from->asan_fake,
                                 to->stack, to->stack_size);
#else
  (void)from_dying;
#endif
#if defined(SIM_TSAN)
  __tsan_switch_to_fiber(to->tsan_fiber, sync ? 0 : kTsanNoSync);
#else
  (void)sync;
#endif
  swapcontext(&from->ctx, &to->ctx);
#if defined(SIM_ASAN)
  __sanitizer_finish_switch_fiber(from->asan_fake, nullptr, nullptr);
#endif
}

static void task_finished(Task *t);
static void switch_from_to(int from, int to, bool sync, bool dying);

static void trampoline() {
#if defined(SIM_ASAN)
  __sanitizer_finish_switch_fiber(nullptr, nullptr, nullptr);
#endif
  Task *t = S.starting;
  // Park right after creation: main starts every task with a synchronising
  // switch (thread creation edge) and gets control back at once; from here on
  // every switch is a no-sync switch decided by the scheduler.
  ++t->ctl.exempt;
  switch_from_to(t->ctl.id, -1, false, false);
  --t->ctl.exempt;
  S.fn(S.arg, t->ctl.id);
  task_finished(t);
  abort();  // unreachable
}

// ------------------------------------------------------------------ choice
static bool runnable(int i) { return S.tasks[i].st == T_READY; }

static bool stalled(int i) {
  return S.cfg.policy == P_STALL && i == S.stall_task &&
         S.stats->steps >= S.stall_from && S.stats->steps < S.stall_to;
}

static void log_switch(int task, uint32_t op, uint32_t yidx, int to,
                       uint8_t why) {
  SchedStats &st = *S.stats;
  st.switches++;
  st.switch_hash = mix3(st.switch_hash,
                        ((uint64_t)(uint32_t)(task + 1) << 48) ^
                            ((uint64_t)op << 24) ^ yidx,
                        ((uint64_t)(uint32_t)(to + 1) << 8) | why);
  if (S.log && S.log->size() < kMaxLog) S.log->push_back(SwitchRec{task, op, yidx, to, why});
}

// script lookup: entries of one task are consumed in order
static int script_lookup(int task, uint32_t op, uint32_t yidx, uint8_t why) {
  size_t &cur = task < 0 ? S.main_script_cursor : S.tasks[task].script_cursor;
  const std::vector<SwitchRec> &sc = S.cfg.script;
  while (cur < sc.size()) {
    // advance to the next entry of this task
    size_t i = cur;
    while (i < sc.size() && sc[i].task != task) i++;
    if (i >= sc.size()) {
      cur = i;
      return -1;
    }
    const SwitchRec &e = sc[i];
    if (e.op < op || (e.op == op && e.yidx < yidx)) {
      cur = i + 1;  // stale entry (plan was shrunk): skip
      continue;
    }
    if (e.op == op && e.yidx == yidx && e.why == why) {
      cur = i + 1;
      return e.to;
    }
    cur = i;
    return -1;
  }
  return -1;
}

// choose the task to run when the current one cannot continue
static int pick_next(int cur_task, uint32_t op, uint32_t yidx, uint8_t why) {
  int cand[kMaxTasks], nc = 0;
  for (int i = 0; i < S.n; i++)
    if (runnable(i) && i != cur_task) cand[nc++] = i;
  if (nc == 0) return -1;
  int pick = cand[0];
  switch (S.cfg.policy) {
    case P_SCRIPT: {
      int to = script_lookup(cur_task, op, yidx, why);
      if (to >= 0 && to < S.n && runnable(to) && to != cur_task) pick = to;
      break;
    }
    case P_RANDOM_WALK:
    case P_STALL: {
      int c2[kMaxTasks], n2 = 0;
      for (int k = 0; k < nc; k++)
        if (!stalled(cand[k])) c2[n2++] = cand[k];
      if (n2 == 0) pick = cand[S.rng.below(nc)];
      else pick = c2[S.rng.below(n2)];
      break;
    }
    case P_PCT: {
      for (int k = 1; k < nc; k++)
        if (S.tasks[cand[k]].prio > S.tasks[pick].prio) pick = cand[k];
      break;
    }
    default:
      break;
  }
  return pick;
}

static void switch_from_to(int from, int to, bool sync, bool dying) {
  Fiber *ff = from < 0 ? &S.main_fb : &S.tasks[from].fb;
  Fiber *tf = to < 0 ? &S.main_fb : &S.tasks[to].fb;
  S.cur = to;
  g_cur = to < 0 ? &g_main_ctl : &S.tasks[to].ctl;
  fiber_switch(ff, tf, sync, dying);
}

static void task_finished(Task *t) {
  ++t->ctl.exempt;
  t->st = T_DONE;
#if defined(SIM_TSAN)
  __tsan_release(t);
#endif
  int next = pick_next(t->ctl.id, t->ctl.op_index, t->ctl.yidx, 2);
  if (next < 0) {
    bool any_blocked = false;
    for (int i = 0; i < S.n; i++)
      if (S.tasks[i].st == T_BLOCKED) any_blocked = true;
    if (any_blocked) S.stats->deadlock = true;
    log_switch(t->ctl.id, t->ctl.op_index, t->ctl.yidx, -1, 2);
    switch_from_to(t->ctl.id, -1, true, true);
  } else {
    log_switch(t->ctl.id, t->ctl.op_index, t->ctl.yidx, next, 2);
    switch_from_to(t->ctl.id, next, false, true);
  }
  abort();
}

// park the current task; returns when it has been made runnable and chosen
static void block_current() {
  TaskCtl *c = g_cur;
  if (c->id < 0) {
    fprintf(stderr, "sim: main context would block\n");
    fflush(stderr);
    _exit(2);
  }
  Task *t = &S.tasks[c->id];
  ++c->exempt;
  t->st = T_BLOCKED;
  S.stats->blocked_events++;
  int next = pick_next(c->id, c->op_index, c->yidx, 1);
  if (next < 0) {
    S.stats->deadlock = true;
    log_switch(c->id, c->op_index, c->yidx, -1, 1);
    switch_from_to(c->id, -1, true, false);  // main abandons the world
    abort();
  }
  log_switch(c->id, c->op_index, c->yidx, next, 1);
  switch_from_to(c->id, next, false, false);
  --c->exempt;
}

void wake_all() {
  for (int i = 0; i < S.n; i++)
    if (S.tasks[i].st == T_BLOCKED) S.tasks[i].st = T_READY;
}

static volatile int g_stop = 0;
void stop_world() {
  g_stop = 1;
  wake_all();
}
bool world_stopped() { return g_stop != 0; }
void flag_set(volatile int *flag) { *flag = 1; }
bool flag_get(volatile int *flag) { return *flag != 0; }
void take_tag_violations(uint32_t &dead, uint32_t &uninit) {
  TaskCtl *c = g_cur;
  dead = c->tagviol_dead;
  uninit = c->tagviol_uninit;
  c->tagviol_dead = c->tagviol_uninit = 0;
}

void block_until(volatile int *flag) {
  while (!*flag && !g_stop) block_current();
}

void yield_point(YieldKind k) {
  TaskCtl *c = g_cur;
  if (c->id < 0 || c->exempt || !S.active) return;
  SchedStats &st = *S.stats;
  c->yidx++;
  st.steps++;
  st.yields[k]++;
  if (c->no_preempt) return;
  if (S.n < 2) return;
  if (st.steps > S.cfg.max_steps) {
    st.budget_exceeded = true;
    return;
  }
  int target = -1;
  switch (S.cfg.policy) {
    case P_RUN_TO_BLOCK:
      return;
    case P_SCRIPT: {
      ++c->exempt;
      target = script_lookup(c->id, c->op_index, c->yidx, 0);
      --c->exempt;
      if (target < 0) return;
      break;
    }
    case P_RANDOM_WALK:
    case P_STALL: {
      if (--S.countdown > 0) return;
      // geometric-ish gap with the configured mean
      S.countdown = 1 + (int64_t)S.rng.below(2 * S.cfg.period);
      int cand[kMaxTasks], nc = 0;
      for (int i = 0; i < S.n; i++)
        if (runnable(i) && i != c->id && !stalled(i)) cand[nc++] = i;
      if (nc == 0) return;
      target = cand[S.rng.below(nc)];
      break;
    }
    case P_PCT: {
      bool change = false;
      for (uint64_t p : S.pct_points)
        if (p == st.steps) change = true;
      if (change) S.tasks[c->id].prio = --S.pct_low;
      int best = c->id;
      for (int i = 0; i < S.n; i++)
        if (runnable(i) && S.tasks[i].prio > S.tasks[best].prio) best = i;
      if (best == c->id) return;
      target = best;
      break;
    }
    default:
      return;
  }
  if (target < 0 || target >= S.n || target == c->id || !runnable(target))
    return;
  ++c->exempt;
  log_switch(c->id, c->op_index, c->yidx, target, 0);
  switch_from_to(c->id, target, false, false);
  --c->exempt;
}

void run_tasks(int n, TaskFn fn, void *arg, const SchedConfig &cfg,
               SchedStats &stats, std::vector<SwitchRec> *log_out) {
  if (n > kMaxTasks) n = kMaxTasks;
  g_stop = 0;
  S.active = true;
  S.n = n;
  S.cfg = cfg;
  S.stats = &stats;
  S.log = cfg.record ? log_out : nullptr;
  if (S.log) S.log->reserve(kMaxLog);  // no reallocation while tasks run
  S.rng = Rng(mix3(cfg.seed, 0x5c4ed, 1));
  S.countdown = 1 + (int64_t)S.rng.below(2 * (cfg.period ? cfg.period : 1));
  S.fn = fn;
  S.arg = arg;
  S.main_script_cursor = 0;
  S.static_ticks = 0;
  S.pct_points.clear();
  S.pct_low = 0;
  if (cfg.policy == P_PCT)
    for (uint32_t i = 0; i < cfg.pct_depth; i++)
      S.pct_points.push_back(1 + S.rng.below(cfg.est_steps ? cfg.est_steps : 1));
  S.stall_task = -1;
  if (cfg.policy == P_STALL && n > 1) {
    S.stall_task = (int)S.rng.below(n);
    S.stall_from = S.rng.below(cfg.est_steps ? cfg.est_steps : 1);
    S.stall_to = S.stall_from + 1 + S.rng.below(cfg.est_steps ? cfg.est_steps : 1);
  }
  {
    volatile uint64_t *eh = (volatile uint64_t *)abi::__cxa_get_globals();
    S.main_fb.eh[0] = eh[0];
    S.main_fb.eh[1] = eh[1];
  }
  S.main_fb.stack = (char *)g_main_stack_bottom;
  S.main_fb.stack_size = g_main_stack_size;
#if defined(SIM_TSAN)
  S.main_fb.tsan_fiber = __tsan_get_current_fiber();
#endif
  for (int i = 0; i < n; i++) {
    Task &t = S.tasks[i];
    t.ctl = TaskCtl();
    t.ctl.id = i;
    t.st = T_READY;
    t.script_cursor = 0;
    t.prio = 0;
    t.fb.stack = get_stack(i);
    t.fb.stack_size = kStackSize;
    t.fb.asan_fake = nullptr;
    t.fb.eh[0] = t.fb.eh[1] = 0;
    if (g_n_tls_ranges > 0) {
      if (!t.fb.tls) t.fb.tls = (unsigned char *)malloc(g_tls_bytes);
      tls_fill_initial(t.fb.tls);  // a new thread starts from the initialisation image
      if (!S.main_fb.tls) S.main_fb.tls = (unsigned char *)malloc(g_tls_bytes);
    }
    getcontext(&t.fb.ctx);
    t.fb.ctx.uc_stack.ss_sp = t.fb.stack;
    t.fb.ctx.uc_stack.ss_size = t.fb.stack_size;
    t.fb.ctx.uc_link = nullptr;
    makecontext(&t.fb.ctx, (void (*)())trampoline, 0);
#if defined(SIM_TSAN)
    t.fb.tsan_fiber = __tsan_create_fiber(0);
#endif
#if defined(SIM_VG)
    t.fb.vg_id = VALGRIND_STACK_REGISTER(t.fb.stack, t.fb.stack + kStackSize);
#endif
  }
  if (cfg.policy == P_PCT) {
    // distinct random priorities 1..n
    int perm[kMaxTasks];
    for (int i = 0; i < n; i++) perm[i] = i + 1;
    for (int i = n - 1; i > 0; i--) {
      int j = (int)S.rng.below(i + 1);
      int tmp = perm[i];
      perm[i] = perm[j];
      perm[j] = tmp;
    }
    for (int i = 0; i < n; i++) S.tasks[i].prio = perm[i];
  }
  // Start every fiber once with a synchronising switch (thread creation is a
  // happens-before edge from main); each parks immediately (trampoline).
  for (int i = 0; i < n; i++) {
    S.starting = &S.tasks[i];
    switch_from_to(-1, i, true, false);
  }
  int first = pick_next(-1, 0, 0, 2);
  if (first >= 0) {
    log_switch(-1, 0, 0, first, 2);
    switch_from_to(-1, first, false, false);
  }
  // back in main: all done or deadlock
  for (int i = 0; i < n; i++) {
    Task &t = S.tasks[i];
#if defined(SIM_TSAN)
    __tsan_acquire(&t);
    if (t.fb.tsan_fiber) __tsan_destroy_fiber(t.fb.tsan_fiber);
    t.fb.tsan_fiber = nullptr;
#endif
#if defined(SIM_VG)
    VALGRIND_STACK_DEREGISTER(t.fb.vg_id);
#endif
    (void)t;
  }
  S.active = false;
  S.stats = &g_dummy_stats;
  S.log = nullptr;
  g_cur = &g_main_ctl;
}

void begin_op(uint32_t op_index, int64_t alloc_fail_at, int64_t scalar_throw_at,
              int64_t cb_throw_at) {
  TaskCtl *c = g_cur;
  c->op_index = op_index;
  c->yidx = 0;
  c->alloc_idx = c->scalar_idx = c->cb_idx = 0;
  c->alloc_fail_at = alloc_fail_at;
  c->scalar_throw_at = scalar_throw_at;
  c->cb_throw_at = cb_throw_at;
  c->fired_alloc = c->fired_scalar = c->fired_cb = 0;
  c->note = 0;
}

// ------------------------------------------------------------------ seams
void tick_scalar() {
  TaskCtl *c = g_cur;
  if (c->exempt || c->lib_depth == 0) return;
  if (!c->in_static_init) {
    uint32_t i = c->scalar_idx++;
    if ((int64_t)i == c->scalar_throw_at) {
      c->scalar_throw_at = -1;
      c->fired_scalar++;
      S.stats->fired_scalar++;
      throw ScalarFault();
    }
#if !defined(SIM_SELFCHK)
#if defined(SIM_TSAN)
  // the TSan runtime's pthread_once interceptor never resets its control word
  // when the routine exits by an exception (every later caller would hang): no
  // fault inside a once-routine in this flavour; the others inject it
  } else if (c->in_once) {
#endif
  } else if (S.active && S.cfg.static_init_throw && ++S.static_ticks == S.cfg.static_init_throw) {
    S.stats->static_init_faults++;
    c->fired_scalar++;  // the operation in progress did meet an injected fault
    throw ScalarFault();  // StaticInitThrow: exercises __cxa_guard_abort
#endif
  }
  yield_point(Y_SCALAR);
}

void tick_callback() {
  TaskCtl *c = g_cur;
  if (c->exempt || c->lib_depth == 0) return;
  uint32_t i = c->cb_idx++;
  if ((int64_t)i == c->cb_throw_at) {
    c->cb_throw_at = -1;
    c->fired_cb++;
    S.stats->fired_cb++;
    throw CallbackFault();
  }
  yield_point(Y_CALLBACK);
}

void tag_violation(uint32_t tag, int what) {
  (void)what;
  TaskCtl *c = g_cur;
  if (tag == 0xDEADDEADu) c->tagviol_dead++;
  else c->tagviol_uninit++;
}

void hb_release(void *addr) {
#if defined(SIM_TSAN)
  __tsan_release(addr);
#else
  (void)addr;
#endif
}
void hb_acquire(void *addr) {
#if defined(SIM_TSAN)
  __tsan_acquire(addr);
#else
  (void)addr;
#endif
}

// ------------------------------------------------------------------ guards
// Itanium ABI guard object: byte 0 = initialised. We keep "in progress" in
// byte 1. Only one OS thread ever runs simulator code, so no atomics needed
// here; the compiler-inlined fast path reads byte 0 with an acquire load.
// Fixed array, no libc calls: TSan intercepts memmove/memcpy even in this
// uninstrumented TU and would take the registry for shared library state.
static const int kMaxGuards = 256;
static uint64_t *g_lib_guards[kMaxGuards];
static int g_n_guards = 0;

static void guard_register(uint64_t *g) {
  for (int i = 0; i < g_n_guards; i++)
    if (g_lib_guards[i] == g) return;
  if (g_n_guards < kMaxGuards) g_lib_guards[g_n_guards++] = g;
}

extern "C" int __wrap___cxa_guard_acquire(uint64_t *g) {
  volatile uint8_t *b = (volatile uint8_t *)g;
  TaskCtl *c = g_cur;
  if (b[0]) {
    hb_acquire(g);
    return 0;
  }
  bool lib = c->lib_depth > 0 && !c->exempt;
  if (lib) yield_point(Y_GUARD);  // a pre-emption opportunity before the init
  bool contended = false;
  while (b[1]) {
    if (!contended) {
      contended = true;
      S.stats->guard_contended++;
    }
    block_current();
  }
  if (b[0]) {
    hb_acquire(g);
    return 0;
  }
  b[1] = 1;
  c->in_static_init++;
  // Every function-local static is registered, whoever initialises it first:
  // a template static of the library may be reached first by harness code
  // (an oracle building a twin), and a world must not inherit it from its
  // predecessors in the process - one run has to be a function of its plan.
  guard_register(g);
  if (lib) S.stats->guard_inits++;
  return 1;
}

extern "C" void __wrap___cxa_guard_release(uint64_t *g) {
  volatile uint8_t *b = (volatile uint8_t *)g;
  TaskCtl *c = g_cur;
  hb_release(g);
  b[0] = 1;
  b[1] = 0;
  c->in_static_init--;
  wake_all();
  if (c->lib_depth > 0 && !c->exempt) yield_point(Y_GUARD);
}

extern "C" void __wrap___cxa_guard_abort(uint64_t *g) {
  volatile uint8_t *b = (volatile uint8_t *)g;
  TaskCtl *c = g_cur;
  hb_release(g);
  b[1] = 0;
  c->in_static_init--;
  if (c->lib_depth > 0 && !c->exempt) S.stats->guard_aborts++;
  wake_all();
}

static void reset_locks();
void reset_library_guards() {
  reset_locks();
  for (int i = 0; i < g_n_guards; i++) {
    volatile uint8_t *b = (volatile uint8_t *)g_lib_guards[i];
    b[0] = 0;
    b[1] = 0;
  }
}


}  // namespace sim

// ------------------------------------------------------------------ locks
// Blocking primitives a library may legitimately use for correctly
// synchronised lazy state (std::mutex, std::call_once, std::shared_mutex).
// Fibers share one OS thread: a task pre-empted inside a critical section
// would make the next task block the whole process in the real primitive.
// The calls made from the code compiled into the simulator are therefore
// wrapped: a task that finds a lock held by another task is parked by the
// scheduler; the real primitive is still called once it cannot block, so that
// TSan sees the genuine acquire/release edges.
extern "C" {
int __real_pthread_mutex_lock(pthread_mutex_t *);
int __real_pthread_mutex_trylock(pthread_mutex_t *);
int __real_pthread_mutex_unlock(pthread_mutex_t *);
int __real_pthread_once(pthread_once_t *, void (*)(void));
int __real_pthread_rwlock_rdlock(pthread_rwlock_t *);
int __real_pthread_rwlock_wrlock(pthread_rwlock_t *);
int __real_pthread_rwlock_tryrdlock(pthread_rwlock_t *);
int __real_pthread_rwlock_trywrlock(pthread_rwlock_t *);
int __real_pthread_rwlock_unlock(pthread_rwlock_t *);
}
namespace sim {
struct LockRec {
  void *addr;
  int owner;   // task id, -1 free
  int count;
};
static const int kMaxLocks = 128;
static LockRec g_locks[kMaxLocks];
static int g_n_locks = 0;
static LockRec *lock_rec(void *a) {
  for (int i = 0; i < g_n_locks; i++)
    if (g_locks[i].addr == a) return &g_locks[i];
  for (int i = 0; i < g_n_locks; i++)
    if (g_locks[i].owner < 0 && g_locks[i].count == 0) {  // recycle a free record
      g_locks[i].addr = a;
      return &g_locks[i];
    }
  if (g_n_locks < kMaxLocks) {
    g_locks[g_n_locks] = LockRec{a, -1, 0};
    return &g_locks[g_n_locks++];
  }
  return nullptr;
}
static bool sim_lock_active() { return S.active && g_cur->id >= 0; }
// waits until no other task holds the lock; returns the record (owner set)
static LockRec *sim_acquire(void *a, bool try_only, bool *busy) {
  TaskCtl *c = g_cur;
  if (c->lib_depth > 0 && !c->exempt) yield_point(Y_GUARD);
  LockRec *r = lock_rec(a);
  if (!r) return nullptr;
  while (r->owner >= 0 && r->owner != c->id) {
    if (try_only) {
      *busy = true;
      return r;
    }
    S.stats->guard_contended++;
    block_current();
    r = lock_rec(a);
    if (!r) return nullptr;
  }
  r->owner = c->id;
  r->count++;
  return r;
}
static void sim_release(void *a) {
  LockRec *r = lock_rec(a);
  if (r && r->owner == g_cur->id && r->count > 0) {
    if (--r->count == 0) r->owner = -1;
  }
  wake_all();
  if (g_cur->lib_depth > 0 && !g_cur->exempt) yield_point(Y_GUARD);
}
static void reset_locks() {
  g_n_locks = 0;
}
}  // namespace sim
extern "C" {
int __wrap_pthread_mutex_lock(pthread_mutex_t *m) {
  if (!sim::sim_lock_active()) return __real_pthread_mutex_lock(m);
  bool busy = false;
  sim::sim_acquire(m, false, &busy);
  return __real_pthread_mutex_lock(m);
}
int __wrap_pthread_mutex_trylock(pthread_mutex_t *m) {
  if (!sim::sim_lock_active()) return __real_pthread_mutex_trylock(m);
  bool busy = false;
  sim::sim_acquire(m, true, &busy);
  if (busy) return 16;  // EBUSY
  int rc = __real_pthread_mutex_trylock(m);
  if (rc != 0) sim::sim_release(m);
  return rc;
}
int __wrap_pthread_mutex_unlock(pthread_mutex_t *m) {
  int rc = __real_pthread_mutex_unlock(m);
  if (sim::sim_lock_active()) sim::sim_release(m);
  return rc;
}
int __wrap_pthread_rwlock_rdlock(pthread_rwlock_t *m) {
  if (!sim::sim_lock_active()) return __real_pthread_rwlock_rdlock(m);
  bool busy = false;
  sim::sim_acquire(m, false, &busy);  // readers are serialised as well: conservative, never blocks for real
  return __real_pthread_rwlock_rdlock(m);
}
int __wrap_pthread_rwlock_wrlock(pthread_rwlock_t *m) {
  if (!sim::sim_lock_active()) return __real_pthread_rwlock_wrlock(m);
  bool busy = false;
  sim::sim_acquire(m, false, &busy);
  return __real_pthread_rwlock_wrlock(m);
}
int __wrap_pthread_rwlock_tryrdlock(pthread_rwlock_t *m) {
  if (!sim::sim_lock_active()) return __real_pthread_rwlock_tryrdlock(m);
  bool busy = false;
  sim::sim_acquire(m, true, &busy);
  if (busy) return 16;
  int rc = __real_pthread_rwlock_tryrdlock(m);
  if (rc != 0) sim::sim_release(m);
  return rc;
}
int __wrap_pthread_rwlock_trywrlock(pthread_rwlock_t *m) {
  if (!sim::sim_lock_active()) return __real_pthread_rwlock_trywrlock(m);
  bool busy = false;
  sim::sim_acquire(m, true, &busy);
  if (busy) return 16;
  int rc = __real_pthread_rwlock_trywrlock(m);
  if (rc != 0) sim::sim_release(m);
  return rc;
}
int __wrap_pthread_rwlock_unlock(pthread_rwlock_t *m) {
  int rc = __real_pthread_rwlock_unlock(m);
  if (sim::sim_lock_active()) sim::sim_release(m);
  return rc;
}
// The init routine of a once-flag is treated like a static initialiser: no
// attached fault is injected inside it (an exception out of pthread_once is
// not supported by the TSan runtime's interceptor, which never resets its
// control word), and its steps do not count towards the operation's indices.
static void (*g_once_fn)(void) = nullptr;
static void sim_once_trampoline(void) {
  void (*fn)(void) = g_once_fn;
  sim::TaskCtl *c = sim::g_cur;
  c->in_static_init++;
  c->in_once++;
  try {
    fn();
  } catch (...) {
    c->in_static_init--;
    c->in_once--;
    throw;
  }
  c->in_static_init--;
  c->in_once--;
}
int __wrap_pthread_once(pthread_once_t *o, void (*fn)(void)) {
  if (!sim::sim_lock_active()) return __real_pthread_once(o, fn);
  // the real control word says whether the initialisation has completed; the
  // side record only tracks "in progress in task X"
  bool busy = false;
  sim::sim_acquire(o, false, &busy);
  struct Release {
    void *a;
    ~Release() { sim::sim_release(a); }
  } rel{o};
  // run the real once: nobody else is inside (we hold the record), so it either
  // returns at once (done) or runs fn in this task; fn may yield - other tasks
  // arriving meanwhile are parked on the record, not in the real primitive
  g_once_fn = fn;
  return __real_pthread_once(o, sim_once_trampoline);
}
}

namespace sim {

// ------------------------------------------------------------------ allocator
// Side table of blocks allocated inside library regions (open addressing).
static const size_t kLiveCap = 1 << 16;
static void *g_live[kLiveCap];
static size_t g_live_count = 0;

static inline size_t ptr_slot(void *p) {
  return (size_t)(mix64((uint64_t)(uintptr_t)p) & (kLiveCap - 1));
}
static void live_add(void *p) {
  if (g_live_count * 2 > kLiveCap) return;  // saturated: stop tracking
  size_t i = ptr_slot(p);
  while (g_live[i] && g_live[i] != (void *)1) i = (i + 1) & (kLiveCap - 1);
  g_live[i] = p;
  g_live_count++;
}
static bool live_remove(void *p) {
  size_t i = ptr_slot(p);
  for (size_t n = 0; n < kLiveCap; n++) {
    if (!g_live[i]) return false;
    if (g_live[i] == p) {
      g_live[i] = (void *)1;  // tombstone
      g_live_count--;
      return true;
    }
    i = (i + 1) & (kLiveCap - 1);
  }
  return false;
}
size_t live_library_allocations() { return g_live_count; }
void live_reset() {
  memset(g_live, 0, sizeof(g_live));
  g_live_count = 0;
}

static inline bool alloc_prologue() {
  TaskCtl *c = g_cur;
  if (c->lib_depth == 0 || c->exempt) return false;
  if (!c->in_static_init) {
    uint32_t i = c->alloc_idx++;
    if ((int64_t)i == c->alloc_fail_at) {
      c->alloc_fail_at = -1;
      c->fired_alloc++;
      S.stats->fired_alloc++;
      throw std::bad_alloc();
    }
  }
  yield_point(Y_ALLOC);
  return true;
}
static inline void free_prologue(void *p) {
  if (!p) return;
  live_remove(p);
  TaskCtl *c = g_cur;
  if (c->lib_depth == 0 || c->exempt) return;
  yield_point(Y_FREE);
}

}  // namespace sim

#if defined(SIM_TSAN) || defined(SIM_VG)
// TSan's runtime owns operator new/delete (and valgrind redirects them by
// name); intercept the calls made from the code compiled into the simulator
// with -Wl,--wrap instead of replacing them (DESIGN §2.2(7)).
#if defined(SIM_VG)
#define SIM_FILL(p, n) ((void)0)  /* keep memcheck's definedness tracking */
#else
#define SIM_FILL(p, n) memset(p, 0xCD, n)
#endif
extern "C" {
void *__real__Znwm(size_t);
void *__real__Znam(size_t);
void __real__ZdlPv(void *);
void __real__ZdaPv(void *);
void __real__ZdlPvm(void *, size_t);
void __real__ZdaPvm(void *, size_t);
void *__wrap__Znwm(size_t n) {
  bool lib = sim::alloc_prologue();
  void *p = __real__Znwm(n);
  SIM_FILL(p, n);
  if (lib) sim::live_add(p);
  return p;
}
void *__wrap__Znam(size_t n) {
  bool lib = sim::alloc_prologue();
  void *p = __real__Znam(n);
  SIM_FILL(p, n);
  if (lib) sim::live_add(p);
  return p;
}
void __wrap__ZdlPv(void *p) {
  sim::free_prologue(p);
  __real__ZdlPv(p);
}
void __wrap__ZdaPv(void *p) {
  sim::free_prologue(p);
  __real__ZdaPv(p);
}
void __wrap__ZdlPvm(void *p, size_t n) {
  sim::free_prologue(p);
  __real__ZdlPvm(p, n);
}
void __wrap__ZdaPvm(void *p, size_t n) {
  sim::free_prologue(p);
  __real__ZdaPvm(p, n);
}
}
#else
static void *sim_alloc(size_t n) {
  bool lib = sim::alloc_prologue();
  void *p = malloc(n ? n : 1);
  if (!p) throw std::bad_alloc();
  memset(p, 0xCD, n);  // pattern fill: uninitialised scalars get a garbage tag
  if (lib) sim::live_add(p);
  return p;
}
static void sim_free(void *p) {
  sim::free_prologue(p);
  free(p);
}
void *operator new(size_t n) { return sim_alloc(n); }
void *operator new[](size_t n) { return sim_alloc(n); }
void *operator new(size_t n, const std::nothrow_t &) noexcept {
  try {
    return sim_alloc(n);
  } catch (...) {
    return nullptr;
  }
}
void *operator new[](size_t n, const std::nothrow_t &) noexcept {
  try {
    return sim_alloc(n);
  } catch (...) {
    return nullptr;
  }
}
void operator delete(void *p) noexcept { sim_free(p); }
void operator delete[](void *p) noexcept { sim_free(p); }
void operator delete(void *p, size_t) noexcept { sim_free(p); }
void operator delete[](void *p, size_t) noexcept { sim_free(p); }
void operator delete(void *p, const std::nothrow_t &) noexcept { sim_free(p); }
void operator delete[](void *p, const std::nothrow_t &) noexcept { sim_free(p); }
#endif

// ------------------------------------------------------------------ process
namespace sim {

static volatile long g_death_run = -1;
static const char *volatile g_death_phase = "";

void set_death_context(long run, const char *phase) {
  g_death_run = run;
  g_death_phase = phase;
}

static void write_str(const char *s) {
  ssize_t r = write(1, s, strlen(s));
  (void)r;
}
static void write_num(long v) {
  char buf[32];
  int n = 0;
  bool neg = v < 0;
  unsigned long u = neg ? (unsigned long)(-v) : (unsigned long)v;
  do {
    buf[n++] = (char)('0' + u % 10);
    u /= 10;
  } while (u);
  if (neg) buf[n++] = '-';
  char out[32];
  for (int i = 0; i < n; i++) out[i] = buf[n - 1 - i];
  ssize_t r = write(1, out, n);
  (void)r;
}

static const char *(*g_namer)(int) = nullptr;
void set_op_namer(const char *(*namer)(int)) { g_namer = namer; }

static void death_line(const char *how) {
  TaskCtl *c = g_cur;
  write_str("\nDEAD how=");
  write_str(how);
  write_str(" run=");
  write_num(g_death_run);
  write_str(" phase=");
  write_str(g_death_phase);
  write_str(" task=");
  write_num(c->id);
  write_str(" op=");
  write_num(c->op_index);
  write_str(" kind=");
  write_str(g_namer ? g_namer(c->op_kind) : "?");
  write_str(" note=");
  write_num(c->note);
  write_str(" lib=");
  write_num(c->lib_depth > 0 && !c->exempt);
  write_str("\n");
}

void death_note_from_sanitizer() { death_line("sanitizer"); }

static void on_signal(int sig) {
  death_line(sig == SIGABRT ? "abort" : sig == SIGSEGV ? "segv" : "signal");
  _exit(sig == SIGABRT ? 79 : 80);
}

static void on_terminate() {
  death_line("terminate");
  _exit(78);
}

static void *noop_thread(void *) { return nullptr; }

#if defined(SIM_ASAN)
static void asan_death_cb() { death_line("sanitizer"); }
#endif

static int g_tsan_reports = 0;
int tsan_report_count() { return g_tsan_reports; }

void process_init() {
  // libstdc++ single-threaded fast path (DESIGN §2.2(1)): make the process
  // multi-threaded once, so shared_ptr uses atomic reference counts.
  pthread_t th;
  if (pthread_create(&th, nullptr, noop_thread, nullptr) == 0)
    pthread_join(th, nullptr);
  std::set_terminate(on_terminate);
  struct sigaction sa;
  memset(&sa, 0, sizeof(sa));
  sa.sa_handler = on_signal;
  sigaction(SIGABRT, &sa, nullptr);
#if !defined(SIM_ASAN) && !defined(SIM_TSAN)
  sigaction(SIGSEGV, &sa, nullptr);
  sigaction(SIGBUS, &sa, nullptr);
  sigaction(SIGFPE, &sa, nullptr);
#endif
#if defined(SIM_ASAN)
  __sanitizer_set_death_callback(asan_death_cb);
#endif
  pthread_attr_t attr;
  if (pthread_getattr_np(pthread_self(), &attr) == 0) {
    void *addr = nullptr;
    size_t sz = 0;
    pthread_attr_getstack(&attr, &addr, &sz);
    g_main_stack_bottom = addr;
    g_main_stack_size = sz;
    pthread_attr_destroy(&attr);
  }
  S.stats = &g_dummy_stats;
  tls_discover();
  {
    // ASan prints a one-time notice at the first makecontext of a process; take
    // it here so that the per-run children (forked later) do not repeat it
    static ucontext_t dummy;
    static char dummy_stack[16384];
    getcontext(&dummy);
    dummy.uc_stack.ss_sp = dummy_stack;
    dummy.uc_stack.ss_size = sizeof(dummy_stack);
    dummy.uc_link = nullptr;
    makecontext(&dummy, (void (*)())noop_thread, 0);
  }
}

const char *flavour_name() {
#if defined(SIM_ASAN)
  return "asan";
#elif defined(SIM_TSAN)
  return "tsan";
#elif defined(SIM_VG)
  return "vg";
#elif defined(SIM_SELFCHK)
  return "selfchk";
#else
  return "plain";
#endif
}

void tsan_note_report() {
  g_tsan_reports++;
  if (S.stats) S.stats->tsan_reports++;
}

}  // namespace sim

#if defined(SIM_TSAN)
extern "C" {
int __tsan_get_report_data(void *report, const char **description, int *count, int *stack_count, int *mop_count,
                           int *loc_count, int *mutex_count, int *thread_count, int *unique_tid_count,
                           void **sleep_trace, unsigned long trace_size);
int __tsan_get_report_loc(void *report, unsigned long idx, const char **type, void **addr, unsigned long *start,
                          unsigned long *size, int *tid, int *fd, int *suppressable, void **trace,
                          unsigned long trace_size);
}
// Thread-local storage belongs to the OS thread, which all simulated caller
// threads (fibers) share: a report whose location is TLS says that two fibers
// touched "the same" thread_local - in a real program each thread has its own.
// Such reports are an artefact of the simulation and are not counted.
extern "C" void __tsan_on_report(void *rep) {
  const char *desc = nullptr;
  int count = 0, stacks = 0, mops = 0, locs = 0, mutexes = 0, threads = 0, utids = 0;
  void *sleep_trace[1] = {nullptr};
  if (__tsan_get_report_data(rep, &desc, &count, &stacks, &mops, &locs, &mutexes, &threads, &utids, sleep_trace, 1)) {
    for (int i = 0; i < locs; i++) {
      const char *type = nullptr;
      void *addr = nullptr;
      unsigned long start = 0, size = 0;
      int tid = 0, fd = 0, supp = 0;
      void *trace[1] = {nullptr};
      if (__tsan_get_report_loc(rep, (unsigned long)i, &type, &addr, &start, &size, &tid, &fd, &supp, trace, 1) && type &&
          strcmp(type, "tls") == 0)
        return;
    }
  }
  sim::tsan_note_report();
}
extern "C" __attribute__((used)) const char *__tsan_default_options() {
  return "halt_on_error=0:report_bugs=1:suppress_equal_stacks=0:"
         "suppress_equal_addresses=0:exitcode=0:history_size=4:"
         "report_signal_unsafe=0:detect_deadlocks=0:die_after_fork=0";
}
#endif
#if defined(SIM_ASAN)
extern "C" __attribute__((used)) const char *__asan_default_options() {
  return "exitcode=77:detect_leaks=0:abort_on_error=0:detect_stack_use_after_"
         "return=0:allocator_may_return_null=1:handle_abort=0";
}
extern "C" __attribute__((used)) const char *__ubsan_default_options() {
  return "print_stacktrace=1:halt_on_error=1:exitcode=77";
}
#endif

// ------------------------------------------------------------------ probes
// Counted here (uninstrumented TU) so that TSan does not see the harness's
// own bookkeeping as shared state.
namespace simw {
static uint64_t g_probes[256];
void probe(int p, uint64_t n) {
  if (p >= 0 && p < 256) g_probes[p] += n;
}
uint64_t *probe_array() { return g_probes; }
}  // namespace simw
