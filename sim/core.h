// Deterministic simulator core: fibers (simulated caller threads), seeded
// scheduler, fault state, seams (scalar ticks, allocator, static-init guards).
// See DESIGN.md §2. This TU is compiled WITHOUT -fsanitize=thread so that the
// simulator's own bookkeeping is invisible to TSan (DESIGN §2.2(6)).
#pragma once
#include <cstddef>
#include <cstdint>
#include <exception>
#include <string>
#include <vector>

namespace sim {

// ---------------------------------------------------------------- PRNG
inline uint64_t mix64(uint64_t x) {
  x += 0x9E3779B97F4A7C15ull;
  x = (x ^ (x >> 30)) * 0xBF58476D1CE4E5B9ull;
  x = (x ^ (x >> 27)) * 0x94D049BB133111EBull;
  return x ^ (x >> 31);
}
inline uint64_t mix3(uint64_t a, uint64_t b, uint64_t c) {
  return mix64(mix64(mix64(a) ^ b) ^ c);
}
struct Rng {
  uint64_t s;
  explicit Rng(uint64_t seed = 0) : s(seed) {}
  uint64_t next() { return mix64(s += 0x9E3779B97F4A7C15ull); }
  uint32_t below(uint32_t n) { return n ? (uint32_t)(next() % n) : 0; }
  bool chance(uint32_t num, uint32_t den) { return below(den) < num; }
  int range(int lo, int hi) { return lo + (int)below((uint32_t)(hi - lo + 1)); }
};

// ---------------------------------------------------------------- faults
struct ScalarFault final : std::exception {
  const char *what() const noexcept override { return "sim::ScalarFault"; }
};
struct CallbackFault final : std::exception {
  const char *what() const noexcept override { return "sim::CallbackFault"; }
};
struct ScalarDomain final : std::exception {  // exact flavour: division by 0
  const char *what() const noexcept override { return "sim::ScalarDomain"; }
};

enum YieldKind : uint8_t {
  Y_SCALAR, Y_ALLOC, Y_FREE, Y_GUARD, Y_CALLBACK, Y_OPBOUND, Y_MAILBOX, Y_NKINDS
};

// Per-task control block read by the seams. The main context has one too
// (id == -1); it never yields.
struct TaskCtl {
  int id = -1;
  int lib_depth = 0;       // > 0: inside a library call region
  int exempt = 0;          // > 0: harness code (no yield / fault / count)
  int in_static_init = 0;  // > 0: between guard_acquire and release/abort
  int in_once = 0;         // > 0: inside a pthread_once / call_once routine
  int no_preempt = 0;      // > 0: yields do not switch (sweeps)
  uint32_t op_index = 0;   // index of the operation being executed
  int op_kind = -1;        // its kind (for the death line)
  int note = 0;            // 1: the call in progress has to be refused (C08), 2: valid arithmetic call (C03)
  uint32_t yidx = 0;       // yield points seen in this operation
  uint32_t alloc_idx = 0;  // allocation points seen in this operation
  uint32_t scalar_idx = 0; // scalar-operation points seen in this operation
  uint32_t cb_idx = 0;     // callback points seen in this operation
  int64_t alloc_fail_at = -1, scalar_throw_at = -1, cb_throw_at = -1;
  uint32_t fired_alloc = 0, fired_scalar = 0, fired_cb = 0;  // this op
  uint32_t tagviol_dead = 0, tagviol_uninit = 0;              // this op
};
extern TaskCtl *g_cur;  // never null

// Seam entry points (out of line, uninstrumented).
void tick_scalar();    // every scalar operation; may throw ScalarFault
void tick_callback();  // every call into a caller-supplied callable/solver
void tag_violation(uint32_t tag, int what);  // use of dead/uninit scalar
void yield_point(YieldKind k);

struct Exempt {  // harness code inside a library region
  Exempt() { ++g_cur->exempt; }
  ~Exempt() { --g_cur->exempt; }
  Exempt(const Exempt &) = delete;
};
struct LibRegion {  // a call into the library under test
  LibRegion() { ++g_cur->lib_depth; }
  ~LibRegion() { --g_cur->lib_depth; }
  LibRegion(const LibRegion &) = delete;
};
struct NoPreempt {
  NoPreempt() { ++g_cur->no_preempt; }
  ~NoPreempt() { --g_cur->no_preempt; }
};

// reset per-operation counters and attach faults for the next operation
void begin_op(uint32_t op_index, int64_t alloc_fail_at, int64_t scalar_throw_at,
              int64_t cb_throw_at);

// ---------------------------------------------------------------- scheduler
enum Policy : int {
  P_RUN_TO_BLOCK = 0,  // canonical non-pre-emptive schedule
  P_RANDOM_WALK = 1,   // switch with probability 1/period per yield point
  P_PCT = 2,           // random priorities + d priority change points
  P_STALL = 3,         // random walk with one task starved for a stretch
  P_SCRIPT = 4,        // explicit switch list (replay / minimised schedules)
};

struct SwitchRec {  // "when task `task` is at (op, yidx), run `to` next"
  int task;
  uint32_t op, yidx;
  int to;
  uint8_t why;  // 0 pre-empt at yield, 1 blocked, 2 finished
};

struct SchedConfig {
  int policy = P_RUN_TO_BLOCK;
  uint64_t seed = 0;
  uint32_t period = 16;          // random walk: mean yields between switches
  uint32_t pct_depth = 2;        // PCT: number of change points
  uint32_t est_steps = 20000;    // PCT / stall: estimated run length
  std::vector<SwitchRec> script; // P_SCRIPT
  bool record = false;           // keep the switch log
  uint64_t max_steps = 50000000; // step budget per run
  uint32_t static_init_throw = 0; // k>0: the k-th scalar op inside a static initialiser throws
};

struct SchedStats {
  uint64_t steps = 0, switches = 0, switches_in_exception = 0;
  uint64_t yields[Y_NKINDS] = {};
  uint64_t guard_inits = 0, guard_contended = 0, guard_aborts = 0;
  uint64_t fired_alloc = 0, fired_scalar = 0, fired_cb = 0;
  uint64_t static_init_faults = 0;  // StaticInitThrow faults that fired
  uint64_t blocked_events = 0;
  uint64_t switch_hash = 0;  // hash chain over the switch sequence
  bool deadlock = false, budget_exceeded = false;
  int tsan_reports = 0;
};

using TaskFn = void (*)(void *arg, int task_id);

// Runs `n` tasks to completion under the configured schedule. Returns when all
// tasks are done, or on deadlock (stats.deadlock). Must be called from main.
void run_tasks(int n, TaskFn fn, void *arg, const SchedConfig &cfg,
               SchedStats &stats, std::vector<SwitchRec> *log_out);

// Blocking primitive for the harness mailbox: parks the current task until
// `*flag` becomes non-zero (set by another task, which then calls wake_all()).
void block_until(volatile int *flag);
void wake_all();

// World-level flags shared between tasks live here (uninstrumented), so that
// TSan does not mistake the harness's own signalling for library state.
void stop_world();      // ask every task to stop at its next op boundary
bool world_stopped();
void flag_set(volatile int *flag);
bool flag_get(volatile int *flag);
void take_tag_violations(uint32_t &dead, uint32_t &uninit);

// TSan happens-before edges for harness-level channels (no-ops elsewhere).
void hb_release(void *addr);
void hb_acquire(void *addr);

// Reset function-local statics initialised inside library regions, so that the
// next world exercises the initialisation window again (DESIGN §2.2(2)).
void reset_library_guards();

// ---------------------------------------------------------------- allocator
size_t live_library_allocations();  // blocks allocated in library regions
void live_reset();                  // forget them (after a deadlocked world)

// ---------------------------------------------------------------- process
void process_init();  // real thread spawn/join, handlers, sanitizer options
void set_death_context(long run, const char *phase);
void set_op_namer(const char *(*namer)(int));
int tsan_report_count();

const char *flavour_name();
int tls_virtualised_variables();  // thread_local variables of the library saved/restored per task

}  // namespace sim
