// sim::Num — the scalar type the library is instantiated with (DESIGN §2.3).
// Every operation is a yield point and a potential ScalarThrow fault point;
// a tag word detects use of never-initialised or destroyed scalars.
#pragma once
#include <cstdint>
#include <cstring>
#include <string>
#include <type_traits>

#include "core.h"

#ifdef SIM_EXACT
#include <boost/multiprecision/cpp_int.hpp>
#endif

namespace sim {

#ifdef SIM_EXACT
using Val = boost::multiprecision::cpp_rational;
constexpr bool kExact = true;
#else
using Val = double;
constexpr bool kExact = false;
#endif

constexpr uint32_t TAG_OK = 0x5CA1AB1Eu;
constexpr uint32_t TAG_DEAD = 0xDEADDEADu;
// A default-constructed scalar - default- or value-initialised alike - carries
// TAG_UNSET and a poison value (NaN / -7777): the documented requirements on T
// (Spline.h) promise zero only through static_cast<T>(0), and the library
// itself never relies on T() being zero, so T() is modelled as "unspecified
// value" - using one in arithmetic or a comparison, or leaving one in a live
// spline, is reported like any other never-initialised scalar.
constexpr uint32_t TAG_UNSET = 0x0BADC0DEu;

#ifdef SIM_EXACT
struct ValGuard {  // the exact field's own allocations are not fault points
  Exempt e;
};
#else
struct ValGuard {};
#endif

class Num {
  Val v;
  uint32_t tag;

  struct Raw {};
  Num(Raw, Val &&x) : v(static_cast<Val &&>(x)), tag(TAG_OK) {}

  static inline void use(const Num &a) {
    if (__builtin_expect(a.tag != TAG_OK, 0))
      tag_violation(a.tag, 0);
  }
  static Val copy_val(const Num &o) {
    tick_scalar();
    if (__builtin_expect(o.tag == TAG_DEAD, 0)) tag_violation(o.tag, 1);
    ValGuard g;
    (void)g;
    return o.v;
  }
  template <class A>
  static Val from_arith(A a) {
    tick_scalar();
    ValGuard g;
    (void)g;
#ifdef SIM_EXACT
    if constexpr (std::is_floating_point_v<A>) {
      return Val(static_cast<double>(a));
    } else if constexpr (std::is_signed_v<A>) {
      return Val(static_cast<long long>(a));
    } else {
      return Val(static_cast<unsigned long long>(a));
    }
#else
    return static_cast<Val>(a);
#endif
  }

 public:
#ifdef SIM_EXACT
  Num() noexcept : v(-7777), tag(TAG_UNSET) {}
#else
  Num() noexcept : v(__builtin_nan("")), tag(TAG_UNSET) {}
#endif

  template <class A, std::enable_if_t<std::is_arithmetic_v<A>, int> = 0>
  explicit Num(A a) : v(from_arith(a)), tag(TAG_OK) {}

  Num(const Num &o) : v(copy_val(o)), tag(o.tag) {}

  Num &operator=(const Num &o) {
    tick_scalar();
    if (__builtin_expect(o.tag == TAG_DEAD, 0)) tag_violation(o.tag, 1);
    {
      ValGuard g;
      (void)g;
      v = o.v;
    }
    tag = o.tag;
    return *this;
  }

  ~Num() {
#ifdef SIM_EXACT
    Exempt e;
    v = Val();  // release limbs under exemption; the member dtor is then free
#endif
    tag = TAG_DEAD;
  }

  // ---- harness-side access (no tick, no tag check)
  static Num make(Val x) { return Num(Raw{}, static_cast<Val &&>(x)); }
  const Val &raw() const { return v; }
  uint32_t raw_tag() const { return tag; }
  bool tag_valid() const { return tag == TAG_OK; }
  uint64_t bits() const {
#ifdef SIM_EXACT
    // canonical form (cpp_rational keeps fractions reduced): hash the limbs
    Exempt e;
    uint64_t h = 1469598103934665603ull;
    auto fold = [&h](const boost::multiprecision::cpp_int &z) {
      const auto &b = z.backend();
      h = (h ^ (uint64_t)b.sign()) * 1099511628211ull;
      for (unsigned i = 0; i < b.size(); i++) h = (h ^ (uint64_t)b.limbs()[i]) * 1099511628211ull;
      h = (h ^ 0xffu) * 1099511628211ull;
    };
    fold(boost::multiprecision::numerator(v));
    fold(boost::multiprecision::denominator(v));
    return h;
#else
    uint64_t b;
    std::memcpy(&b, &v, 8);
    return b;
#endif
  }

  // ---- arithmetic
#define SIM_BINOP(OP)                                    \
  friend Num operator OP(const Num &a, const Num &b) {   \
    tick_scalar();                                       \
    use(a);                                              \
    use(b);                                              \
    ValGuard g;                                          \
    (void)g;                                             \
    return Num(Raw{}, Val(a.v OP b.v));                  \
  }
  SIM_BINOP(+)
  SIM_BINOP(-)
  SIM_BINOP(*)
#undef SIM_BINOP
  friend Num operator/(const Num &a, const Num &b) {
    tick_scalar();
    use(a);
    use(b);
    ValGuard g;
    (void)g;
#ifdef SIM_EXACT
    if (b.v == 0) throw ScalarDomain();
#endif
    return Num(Raw{}, Val(a.v / b.v));
  }
#define SIM_COMPOUND(OP)             \
  Num &operator OP(const Num &b) {   \
    tick_scalar();                   \
    use(*this);                      \
    use(b);                          \
    ValGuard g;                      \
    (void)g;                         \
    v OP b.v;                        \
    tag = TAG_OK;                    \
    return *this;                    \
  }
  SIM_COMPOUND(+=)
  SIM_COMPOUND(-=)
  SIM_COMPOUND(*=)
#undef SIM_COMPOUND
  Num &operator/=(const Num &b) {
    tick_scalar();
    use(*this);
    use(b);
    ValGuard g;
    (void)g;
#ifdef SIM_EXACT
    if (b.v == 0) throw ScalarDomain();
#endif
    v /= b.v;
    tag = TAG_OK;
    return *this;
  }
  Num operator-() const {
    tick_scalar();
    use(*this);
    ValGuard g;
    (void)g;
    return Num(Raw{}, Val(-v));
  }
  Num operator+() const { return *this; }

#define SIM_CMP(OP)                                      \
  friend bool operator OP(const Num &a, const Num &b) {  \
    tick_scalar();                                       \
    use(a);                                              \
    use(b);                                              \
    ValGuard g;                                          \
    (void)g;                                             \
    return a.v OP b.v;                                   \
  }
  SIM_CMP(<)
  SIM_CMP(<=)
  SIM_CMP(>)
  SIM_CMP(>=)
  SIM_CMP(==)
  SIM_CMP(!=)
#undef SIM_CMP
};

}  // namespace sim
