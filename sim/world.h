// World: object pools, operations, plans, oracles (DESIGN §2.4, §3).
#pragma once
#include <array>
#include <map>
#include <optional>
#include <string>
#include <variant>
#include <vector>

#include "core.h"
#include "json.h"
#include "scalar.h"

#include <bspline/Core.h>
#include <bspline/interpolation/interpolation.h>

#ifndef SIM_MAXORD
#define SIM_MAXORD 3
#endif

namespace simw {

using T = sim::Num;
using Val = sim::Val;
constexpr size_t MAXORD = SIM_MAXORD;
using Grid = bspline::support::Grid<T>;
using Support = bspline::support::Support<T>;
template <size_t k>
using Sp = bspline::Spline<T, k>;
#if SIM_MAXORD == 3
using SpV = std::variant<Sp<0>, Sp<1>, Sp<2>, Sp<3>>;
#elif SIM_MAXORD == 4
using SpV = std::variant<Sp<0>, Sp<1>, Sp<2>, Sp<3>, Sp<4>>;
#else
#error "SIM_MAXORD must be 3 or 4"
#endif
using Gen = bspline::BSplineGenerator<T>;
template <size_t k>
using SpOp = bspline::operators::SplineOperator<T, k>;
using SpOpV = std::variant<SpOp<0>, SpOp<1>, SpOp<2>>;
constexpr size_t MAXFACT = 2;  // highest order of a spline used as factor

constexpr int NG = 3, NS = 4, NP = 6, NGEN = 2, NO = 2;

struct Pool {
  std::array<std::optional<Grid>, NG> g;
  std::array<std::optional<Support>, NS> s;
  std::array<std::optional<SpV>, NP> p;
  std::array<std::optional<Gen>, NGEN> gen;
  std::array<std::optional<SpOpV>, NO> o;
  std::array<std::optional<Grid>, NO> og;  // grid of the spline held by o[i]
  // flat slot the held spline was copied from (-1: shared/unknown) and whether
  // that slot has been the target of an operation since: the C08 expectation
  // for a held operator rests on value semantics (the copy is independent),
  // which is C14's to judge; once the source was modified C08 stays silent
  std::array<int, NO> osrc{{-1, -1}};
  std::array<bool, NO> osrc_dirty{{false, false}};
};
constexpr int NSLOTS = NG + NS + NP + NGEN + NO;
// flat slot numbering used by snapshots / targets
constexpr int SLOT_G0 = 0, SLOT_S0 = NG, SLOT_P0 = NG + NS,
              SLOT_GEN0 = NG + NS + NP, SLOT_O0 = NG + NS + NP + NGEN;

// ---------------------------------------------------------------- plan
enum FaultKind : int { F_ALLOC = 0, F_SCALAR = 1, F_CALLBACK = 2, F_NKINDS };
struct Fault {
  int kind;
  int64_t k;
};

enum OpKind : int {
  // grids
  OP_G_NEW, OP_G_BAD, OP_G_COPY, OP_G_ASSIGN, OP_G_DROP, OP_G_QUERY, OP_G_EQ,
  // supports
  OP_S_NEW, OP_S_BAD, OP_S_EMPTY, OP_S_WHOLE, OP_S_COPY, OP_S_ASSIGN, OP_S_MOVE,
  OP_S_MOVE_ASSIGN, OP_S_DROP, OP_S_UNION, OP_S_INTERSECT, OP_S_QUERY, OP_S_EQ,
  // splines
  OP_P_NEW, OP_P_BAD, OP_P_EMPTY, OP_P_COPY, OP_P_ASSIGN, OP_P_MOVE,
  OP_P_MOVE_ASSIGN, OP_P_XASSIGN, OP_P_DROP, OP_P_ADD, OP_P_SUB, OP_P_MUL,
  OP_P_IADD, OP_P_ISUB, OP_P_SCALE, OP_P_LSCALE, OP_P_DIV, OP_P_NEG,
  OP_P_ISCALE, OP_P_IDIV, OP_P_LINCOMB, OP_P_EVAL, OP_P_FRONTBACK, OP_P_ISZERO,
  OP_P_OVERLAP, OP_P_EQ,
  // operators and forms
  OP_O_APPLY, OP_O_BILIN, OP_O_LIN, OP_O_HOLD, OP_O_HELD_APPLY, OP_O_HELD_COPY,
  OP_O_DROP,
  // generators
  OP_N_NEW, OP_N_BAD, OP_N_GEN, OP_N_COPY, OP_N_ASSIGN, OP_N_DROP,
  // interpolation, numerical integration
  OP_I_INTERP, OP_Q_NUMINT,
  // mailbox
  OP_M_SEND, OP_M_RECV,
  // pinned references into grid storage (checked after every later operation)
  OP_X_PIN,
  // operator / form objects shared as const objects between tasks (ops_shared.cpp)
  OP_O_SH_BUILD, OP_O_SH_APPLY, OP_O_SH_BILIN, OP_O_SH_LIN,
  OP_NKINDS
};
const char *op_name(int kind);
int op_from_name(const std::string &s);

struct Op {
  int kind = 0;
  uint32_t a = 0, b = 0, c = 0, d = 0;
  std::vector<Fault> faults;
};

struct Plan {
  std::string check;  // property the plan was drawn for (profile)
  uint64_t seed = 0;  // run seed (informational once the plan is explicit)
  // world shape
  int gn = 5;          // number of points of the base grid
  uint64_t gseed = 0;  // spacing / offset
  int far = 0;         // base grid far from the origin (real flavour)
  std::vector<Op> setup;               // builds the shared const pool (main)
  std::vector<std::vector<Op>> progs;  // one program per task
  sim::SchedConfig sched;
  int sweep = 0;       // per-operation fault sweep on copies
  int sweep_cap = 64;  // max scalar points per operation
  int compare_canonical = 0;  // C18 oracle (b): also run run-to-block
  int static_init_throw = 0;  // allow ScalarThrow inside static init
  int deep = 0;               // snapshots include evaluations / generator output
  int cold_check = 0;         // deep == 0: history-independence oracle once, at the end of every task
};
sj::Value plan_to_json(const Plan &p);
bool plan_from_json(const sj::Value &v, Plan &p, std::string &err);

struct Profile {  // tier-dependent generation knobs
  std::string check;
  bool thorough = false;
};
Plan make_plan(const Profile &prof, uint64_t seed);

// ---------------------------------------------------------------- outcome
enum Status : int {
  ST_OK = 0, ST_SKIP, ST_BSPLINE, ST_BADALLOC, ST_SCALARFAULT, ST_CALLBACK,
  ST_DOMAIN, ST_SOLVER, ST_OTHER_EXC
};
const char *status_name(int s);

struct Violation {
  std::string prop;   // "C10"
  std::string cls;    // "spline-coeff-count"
  std::string detail;
  int task = -1, op = -1, opkind = -1;
  int sweep_kind = -1;  // found during a sweep: fault kind and index
  int64_t sweep_k = -1;
  std::string site;   // call site key for known-findings
};

struct Target {  // flat slot index of a designated target, -1 none
  int slot = -1;
};

struct Outcome {
  int status = ST_SKIP;
  int code = -1;       // BSpline error code
  uint64_t obs = 0;    // observation hash (bit-exact result / values)
  int target = -1;     // designated target slot (assignment / in-place / dst)
  int target2 = -1;    // second target (source of a move)
  int pilfer1 = -1, pilfer2 = -1;  // operands passed as xvalues: may end in any valid state
  bool multi_grid_call = false;   // op took >= 2 splines (C08 bookkeeping)
  bool expect_refusal = false;    // C08: the call had to be refused
  std::vector<Violation> viol;    // op-local oracle findings
};

// ---------------------------------------------------------------- world
struct Message {
  volatile int ready = 0;
  std::optional<SpV> payload;
};

struct Counters;  // probes and statistics (run.cpp)

// operator expressions and forms built once by the main context and used by
// every task through a const reference (concrete type in ops_shared.cpp)
struct SharedObjsBase {
  virtual ~SharedObjsBase() = default;
};

struct World {
  const Plan *plan = nullptr;
  std::vector<std::vector<Val>> family;  // not used directly; see grid_points
  Pool shared;                            // const while tasks run
  std::vector<Pool> priv;                 // one per task
  std::map<uint32_t, Message> mail;       // created before the tasks start
  Counters *cnt = nullptr;
  SharedObjsBase *shobj = nullptr;        // built by OP_O_SH_BUILD during setup
};

// points of the grid family: variant 0 base, 1 equal-but-distinct, 2.. foreign
std::vector<Val> grid_points(const Plan &p, int variant, uint32_t j);
constexpr int N_GRID_VARIANTS = 10;  // 0 base, 1 equal distinct, 2..8 foreign, 9 equal with signed zero

// A reference obtained from a public accessor of a live object. It must stay
// valid and unchanged for as long as that object is neither assigned to,
// moved from nor destroyed (C09: no dangling storage; C14: grids never change).
struct Pin {
  int slot;          // flat slot of the owning private object, or -1: shared const object
  const T *ptr;
  uint64_t bits;
  int via;           // accessor it came from
};

struct ExecCtx {
  World &w;
  int task;  // -1: main (setup)
  Pool &pool;
  const Op &op;
  Outcome out;
  bool allow_mail = true;  // false in sweeps
  std::vector<Pin> *pins = nullptr;  // null in sweeps and during setup
  ExecCtx(World &w_, int task_, Pool &pool_, const Op &op_)
      : w(w_), task(task_), pool(pool_), op(op_) {}
};

// Executes one operation on ctx.pool (a pure function of pool, shared pool and
// op, except for mailbox operations). Never throws.
void exec_op(ExecCtx &ctx);
// per-family executors (each returns true if it handled the kind)
bool exec_basic(ExecCtx &ctx);
bool exec_spline(ExecCtx &ctx);
bool exec_arith(ExecCtx &ctx);
bool exec_apply(ExecCtx &ctx);
bool exec_forms(ExecCtx &ctx);
bool exec_gen(ExecCtx &ctx);
bool exec_interp(ExecCtx &ctx);
bool exec_numint(ExecCtx &ctx);
bool exec_shared(ExecCtx &ctx);
void destroy_shared_objs(World &w);  // library code (call inside a LibRegion)

// ---------------------------------------------------------------- helpers
inline uint64_t hmix(uint64_t h, uint64_t v) { return sim::mix64(h ^ (v + 0x9E3779B97F4A7C15ull + (h << 6) + (h >> 2))); }

uint64_t hash_points(const Grid &g);
uint64_t hash_grid(const Grid &g);
uint64_t hash_support(const Support &s);
template <size_t k>
uint64_t hash_spline(const Sp<k> &s) {
  sim::Exempt e;
  uint64_t h = hmix(0x5911e, k);
  h = hmix(h, hash_support(s.getSupport()));
  const auto &cs = s.getCoefficients();
  h = hmix(h, cs.size());
  for (const auto &c : cs)
    for (const auto &x : c) h = hmix(h, x.bits());
  return h;
}
uint64_t hash_splinev(const SpV &v);
// window and coefficients only (C08 twin comparison: the grids of the two
// results are logically equal by construction but may be distinct objects)
template <size_t k>
uint64_t hash_spline_wc(const Sp<k> &s) {
  sim::Exempt e;
  uint64_t h = hmix(0x77c, k);
  h = hmix(h, s.getSupport().getStartIndex());
  h = hmix(h, s.getSupport().getEndIndex());
  h = hmix(h, s.getSupport().getGrid().size());
  const auto &cs = s.getCoefficients();
  h = hmix(h, cs.size());
  for (const auto &c : cs)
    for (const auto &x : c) h = hmix(h, x.bits());
  return h;
}

bool grids_logically_equal(const Grid &a, const Grid &b);  // harness-side

// Run `f` as a library call: sets status from the exception that escapes.
template <class F>
void libcall(Outcome &out, F &&f) {
  try {
    sim::LibRegion r;
    f();
    out.status = ST_OK;
  } catch (const bspline::exceptions::BSplineException &e) {
    out.status = ST_BSPLINE;
    out.code = (int)e.getErrorCode();
  } catch (const std::bad_alloc &) {
    out.status = ST_BADALLOC;
  } catch (const sim::ScalarFault &) {
    out.status = ST_SCALARFAULT;
  } catch (const sim::CallbackFault &) {
    out.status = ST_CALLBACK;
  } catch (const sim::ScalarDomain &) {
    out.status = ST_DOMAIN;
  } catch (const std::exception &) {
    out.status = ST_OTHER_EXC;
  }
}

// object selection (args are interpreted modulo the live pool)
const Grid *ref_grid(ExecCtx &c, uint32_t arg);      // private + shared
const Support *ref_sup(ExecCtx &c, uint32_t arg);
const SpV *ref_sp(ExecCtx &c, uint32_t arg);
const Gen *ref_gen(ExecCtx &c, uint32_t arg);
const SpOpV *ref_oper(ExecCtx &c, uint32_t arg);
SpV *own_sp(ExecCtx &c, uint32_t arg, int *slot);     // private, existing
Support *own_sup(ExecCtx &c, uint32_t arg, int *slot);
Grid *own_grid(ExecCtx &c, uint32_t arg, int *slot);
const SpV *ref_sp_maxorder(ExecCtx &c, uint32_t arg, size_t maxorder);

T scalar_choice(uint32_t sel);  // harness-built scalar values
void add_violation(ExecCtx &c, const char *prop, const char *cls,
                   const std::string &detail, const char *site);

// Stores a result spline (any order) into dst (dropping it when its order is
// above MAXORD), after folding it into the observation hash.
template <size_t k>
void store_result(ExecCtx &c, int dst, Sp<k> &&r);

// ---------------------------------------------------------------- oracles
// C10: class invariants of every object in the pool (public accessors only).
void check_invariants(const Pool &pool, std::vector<Violation> &out,
                      const char *where);
template <size_t k>
void check_spline_invariants(const Sp<k> &s, std::vector<Violation> &out,
                             const char *where);
// C14: per-slot state hashes
using Snapshot = std::array<uint64_t, NSLOTS>;
Snapshot snapshot(const Pool &pool, bool deep);
// C14: evaluation is observable state and must not depend on what was done to
// (or with) the object before: every pooled spline must evaluate bit-identically
// to a pristine twin built from its window and coefficients.
void check_history_independence(const Pool &pool, std::vector<Violation> &out, const char *where);
void compare_snapshots(const Snapshot &before, const Snapshot &after,
                       const Outcome &out, std::vector<Violation> &viol,
                       const char *prop_for_refused);

// C03 reference model (exact flavour): function of a spline as a map from
// absolute interval index to polynomial coefficients about the midpoint.
using Poly = std::vector<Val>;
using Fn = std::map<size_t, Poly>;
template <size_t k>
Fn fn_of(const Sp<k> &s) {
  sim::Exempt e;
  Fn f;
  const auto &sup = s.getSupport();
  const auto &cs = s.getCoefficients();
  size_t n = cs.size();
  for (size_t i = 0; i < n; i++) {
    Poly p;
    for (const auto &x : cs[i]) p.push_back(x.raw());
    f[sup.getStartIndex() + i] = p;
  }
  return f;
}
Fn fn_of_v(const SpV &v);
Fn fn_add(const Fn &a, const Fn &b);
Fn fn_scale(const Fn &a, const Val &c);
Fn fn_mul(const Fn &a, const Fn &b);
bool fn_equal(const Fn &a, const Fn &b);
std::string fn_str(const Fn &a);

// probes (counted in core-side arrays so that TSan does not see them)
enum Probe : int {
  PR_PLACE_NESTED, PR_PLACE_PARTIAL, PR_PLACE_TOUCH, PR_PLACE_GAP,
  PR_PLACE_EMPTY, PR_PLACE_IDENT, PR_MIXED_ORDER, PR_MOVED_FROM_REUSE,
  PR_POST_FAILURE_REUSE, PR_SELF_ASSIGN, PR_SELF_IADD, PR_XGRID_CALL,
  PR_XGRID_REFUSED, PR_EQGRID_DISTINCT, PR_IDX_IN, PR_IDX_EDGE, PR_IDX_HUGE,
  PR_IDX_WRAP, PR_LAST_OWNER_TASK, PR_MSG_SENT, PR_MSG_RECV, PR_C03_COMPARED,
  PR_SWEEP_POINTS, PR_FACTOR_INSIDE, PR_TWIN_COMPARED, PR_PIN_TAKEN, PR_PIN_CHECKED,
  PR_ALIAS_SCALAR, PR_NONCONST_OPERAND, PR_XVALUE_OPERAND, PR_NKINDS
};
const char *probe_name(int p);
void probe(int p, uint64_t n = 1);

}  // namespace simw
