#include "run.h"
#include "ops_util.h"

#include <sys/mman.h>
#include <sys/wait.h>
#include <unistd.h>

#include <algorithm>
#include <cstdio>
#include <cstring>

namespace simw {

uint64_t *probe_array();

namespace {

bool g_isolate = true;  // one pristine process image per world (see "isolation" below)

struct TaskLog {
  std::vector<uint64_t> obs;
  std::vector<int> status;
  std::vector<uint8_t> fired;  // which attached fault kinds fired in the operation
  std::vector<uint64_t> steps; // allocation / scalar / callback points the operation went through
  std::vector<Violation> viol;
  Counters cnt;
  std::array<bool, NSLOTS> failed_target{};
  std::array<bool, NSLOTS> moved_from{};
  bool finished = false;
  std::vector<Pin> pins;
};

struct WorldRun {
  World w;
  const Plan *plan = nullptr;
  std::vector<TaskLog> logs;
  TaskLog setup_log;
  Snapshot shared_snap{};
};

void fold_stats(Counters &c, const sim::SchedStats &s) {
  c.steps += s.steps;
  c.switches += s.switches;
  c.switches_in_exception += s.switches_in_exception;
  for (int i = 0; i < sim::Y_NKINDS; i++) c.yields[i] += s.yields[i];
  c.guard_inits += s.guard_inits;
  c.guard_contended += s.guard_contended;
  c.guard_aborts += s.guard_aborts;
  c.blocked += s.blocked_events;
  c.tsan_reports += (uint64_t)s.tsan_reports;
}

void add_counters(Counters &a, const Counters &b) {
  // all members are uint64_t: add field-wise through a flat view
  static_assert(sizeof(Counters) % sizeof(uint64_t) == 0, "flat");
  uint64_t *x = reinterpret_cast<uint64_t *>(&a);
  const uint64_t *y = reinterpret_cast<const uint64_t *>(&b);
  for (size_t i = 0; i < sizeof(Counters) / sizeof(uint64_t); i++) x[i] += y[i];
}

void attach(const Op &op, int64_t &al, int64_t &sc, int64_t &cb, Counters &cnt) {
  al = sc = cb = -1;
  for (const Fault &f : op.faults) {
    if (f.kind == F_ALLOC) al = f.k;
#ifndef SIM_SELFCHK
    // with the library's self-checks compiled in, noexcept accessors perform
    // scalar comparisons: a throwing scalar there is std::terminate, so this
    // flavour injects allocation and callback faults only (DESIGN §2.2(3))
    else if (f.kind == F_SCALAR) sc = f.k;
#endif
    else if (f.kind == F_CALLBACK) cb = f.k;
    if (f.kind >= 0 && f.kind < F_NKINDS) cnt.faults_attached[f.kind]++;
  }
}

// oracles evaluated after an execution of `op` on `pool` (real or swept)
void post_oracles(WorldRun &wr, const Pool &pool, const Snapshot &before, ExecCtx &c,
                  std::vector<Violation> &out, int task, uint32_t idx, const char *where) {
  size_t first = out.size();
  for (auto &v : c.out.viol) out.push_back(v);
  uint32_t dead = 0, uninit = 0;
  sim::take_tag_violations(dead, uninit);
  if (dead) {
    Violation v;
    v.prop = "C09";
    v.cls = "dangling-scalar-use";
    v.detail = std::string(where) + ": a destroyed scalar object was used";
    out.push_back(v);
  }
  if (uninit) {
    Violation v;
    v.prop = "C09";
    v.cls = "uninitialised-scalar-use";
    v.detail = std::string(where) + ": a never-initialised scalar was used in arithmetic or comparison";
    out.push_back(v);
  }
  check_invariants(pool, out, where);
  if (wr.plan->deep && out.size() == first && where[0] == 'o') check_history_independence(pool, out, where);  // real executions only
  Snapshot after = snapshot(pool, wr.plan->deep != 0);
  size_t before_c14 = out.size();
  compare_snapshots(before, after, c.out, out, where);
  if (c.out.expect_refusal && out.size() > before_c14) {
    Violation v;
    v.prop = "C08";
    v.cls = "state-changed-on-refusal";
    v.detail = std::string(where) + ": an argument or the target changed although the call had to be refused";
    out.push_back(v);
  }
  if (&pool != &wr.w.shared && task >= 0) {
    Snapshot sh = snapshot(wr.w.shared, false);
    for (int i = 0; i < NSLOTS; i++)
      if (sh[i] != wr.shared_snap[i]) {
        Violation v;
        v.prop = "C14";
        v.cls = "shared-object-changed";
        v.detail = std::string(where) + ": shared const object in flat slot " + std::to_string(i) + " changed";
        out.push_back(v);
        break;
      }
  }
  for (size_t i = first; i < out.size(); i++) {
    Violation &v = out[i];
    v.task = task;
    v.op = (int)idx;
    v.opkind = c.op.kind;
    if (v.site.empty()) v.site = op_name(c.op.kind);
  }
}

// The C09 check keeps a run going past violations of *other* properties: an
// invalid object (C10) or a disturbed operand (C14) is exactly the state from
// which the out-of-bounds access or the use of dead storage then happens.
// Every other check stops a run at the first violation of any property.
bool has_fatal(const Plan &plan, std::vector<Violation> &viol) {
  if (plan.check != "C09") return !viol.empty();
  for (const Violation &v : viol)
    if (v.prop == "C09") return true;
  if (viol.size() > 8) viol.resize(8);
  return false;
}

#ifdef SIM_EXACT
// Harness housekeeping in the exact flavour: repeated squaring (a = a * a,
// a *= one of its own coefficients) doubles the size of the rationals with
// every step; a spline whose coefficients have outgrown 48 limbs is retired so
// that one run cannot take minutes. Done between operations, after the oracles.
void retire_oversized(Pool &pool, std::vector<Pin> &pins) {
  sim::Exempt e;
  for (int i = 0; i < NP; i++) {
    if (!pool.p[i]) continue;
    bool big = std::visit(
        [](const auto &sp) {
          for (const auto &a : sp.getCoefficients())
            for (const auto &x : a) {
              const Val &v = x.raw();
              if (boost::multiprecision::numerator(v).backend().size() > 48 ||
                  boost::multiprecision::denominator(v).backend().size() > 48)
                return true;
            }
          return false;
        },
        *pool.p[i]);
    if (!big) continue;
    pool.p[i].reset();
    std::vector<Pin> keep;
    for (const Pin &p : pins)
      if (p.slot != SLOT_P0 + i) keep.push_back(p);
    pins.swap(keep);
  }
}
#endif

bool sweepable(const Op &op) { return op.kind != OP_M_SEND && op.kind != OP_M_RECV; }

void sweep_op(WorldRun &wr, int task, const Pool &pool, const Op &op, uint32_t idx,
              const Snapshot &before, TaskLog &log) {
  sim::NoPreempt np;
  uint32_t A = 0, S = 0, CB = 0;
  auto one = [&](int kind, int64_t k) -> bool {
    std::optional<Pool> cp;
    {
      sim::Exempt e;
      cp.emplace(pool);
    }
    sim::begin_op(idx, kind == F_ALLOC ? k : -1, kind == F_SCALAR ? k : -1, kind == F_CALLBACK ? k : -1);
    ExecCtx c(wr.w, task, *cp, op);
    c.allow_mail = false;
    {
      uint32_t d0, u0;  // tag violations raised by harness snapshots are not this operation's
      sim::take_tag_violations(d0, u0);
    }
    exec_op(c);
    if (kind < 0) {
      A = sim::g_cur->alloc_idx;
      S = sim::g_cur->scalar_idx;
      CB = sim::g_cur->cb_idx;
    } else {
      log.cnt.sweep_points[kind]++;
    }
    std::vector<Violation> found;
    post_oracles(wr, *cp, before, c, found, task, idx, kind < 0 ? "sweep-count-pass" : "sweep");
    {
      sim::Exempt e;
      cp.reset();
    }
    if (!found.empty()) {
      for (auto &v : found) {
        v.sweep_kind = kind;
        v.sweep_k = k;
        log.viol.push_back(v);
      }
      return false;
    }
    return true;
  };
  log.cnt.sweep_ops++;
  if (!one(-1, -1)) return;
  for (uint32_t k = 0; k < A; k++)
    if (!one(F_ALLOC, k)) return;
#ifdef SIM_SELFCHK
  S = 0;
#endif
  uint32_t cap = (uint32_t)std::max(1, wr.plan->sweep_cap);
  sim::Rng r(sim::mix3(wr.plan->seed, 0x53ee9, ((uint64_t)(uint32_t)(task + 1) << 32) | idx));  // the *sweep* stream
  if (S <= cap) {
    for (uint32_t k = 0; k < S; k++)
      if (!one(F_SCALAR, k)) return;
  } else {
    for (uint32_t j = 0; j < cap; j++) {
      uint64_t lo = (uint64_t)j * S / cap, hi = (uint64_t)(j + 1) * S / cap;
      uint32_t k = (uint32_t)(lo + r.below((uint32_t)std::max<uint64_t>(1, hi - lo)));
      if (!one(F_SCALAR, k)) return;
    }
  }
  uint32_t cbcap = 12;
  for (uint32_t j = 0; j < std::min(CB, cbcap); j++) {
    uint32_t k = CB <= cbcap ? j : (uint32_t)((uint64_t)j * CB / cbcap);
    if (!one(F_CALLBACK, k)) return;
  }
  probe(PR_SWEEP_POINTS, (uint64_t)A + std::min(S, cap) + std::min(CB, cbcap));
}

void run_op(WorldRun &wr, int task, Pool &pool, const Op &op, uint32_t idx, TaskLog &log) {
  const Plan &plan = *wr.plan;
  sim::begin_op(idx, -1, -1, -1);
  sim::g_cur->op_kind = op.kind;
  Snapshot before = snapshot(pool, plan.deep != 0);
  if (plan.sweep && sweepable(op) && task >= 0) {
    sweep_op(wr, task, pool, op, idx, before, log);
    if (has_fatal(plan, log.viol)) return;
  }
  int64_t al, sc, cb;
  attach(op, al, sc, cb, log.cnt);
  sim::begin_op(idx, al, sc, cb);
  if (task >= 0) sim::yield_point(sim::Y_OPBOUND);
  ExecCtx c(wr.w, task, pool, op);
  if (task >= 0) c.pins = &log.pins;
  {
    uint32_t d0, u0;  // tag violations raised by harness snapshots are not this operation's
    sim::take_tag_violations(d0, u0);
  }
  exec_op(c);
  const uint64_t step_sig = hmix(hmix(sim::g_cur->alloc_idx, sim::g_cur->scalar_idx), sim::g_cur->cb_idx);
  log.cnt.ops[op.kind]++;
  log.cnt.ops_status[c.out.status]++;
  log.cnt.faults_fired[F_ALLOC] += sim::g_cur->fired_alloc;
  log.cnt.faults_fired[F_SCALAR] += sim::g_cur->fired_scalar;
  log.cnt.faults_fired[F_CALLBACK] += sim::g_cur->fired_cb;
  // reuse probes
  for (int t : {c.out.target, c.out.target2, c.out.pilfer1, c.out.pilfer2}) {
    if (t < 0) continue;
    if (log.failed_target[t]) probe(PR_POST_FAILURE_REUSE);
    if (log.moved_from[t]) probe(PR_MOVED_FROM_REUSE);
    log.failed_target[t] = false;
    log.moved_from[t] = false;
  }
  if (c.out.status >= ST_BSPLINE && c.out.target >= 0) log.failed_target[c.out.target] = true;
  if (c.out.status == ST_OK && c.out.target2 >= 0 && c.out.target2 != c.out.target)
    log.moved_from[c.out.target2] = true;
  for (int t : {c.out.pilfer1, c.out.pilfer2})
    if (t >= 0 && t != c.out.target) log.moved_from[t] = true;  // handed over as an xvalue: possibly moved from
  post_oracles(wr, pool, before, c, log.viol, task, idx, "op");
  for (int i = 0; i < NO; i++)
    if (pool.osrc[i] >= 0 && (pool.osrc[i] == c.out.target || pool.osrc[i] == c.out.target2 || pool.osrc[i] == c.out.pilfer1 || pool.osrc[i] == c.out.pilfer2) && c.out.target != SLOT_O0 + i)
      pool.osrc_dirty[i] = true;
  if (task >= 0 && !log.pins.empty()) {
    // pinned references: dropped when their object was this operation's
    // target, otherwise they must still be readable and unchanged
    sim::Exempt e;
    std::vector<Pin> keep;
    for (const Pin &p : log.pins) {
      if (p.slot >= 0 && (p.slot == c.out.target || p.slot == c.out.target2 || p.slot == c.out.pilfer1 || p.slot == c.out.pilfer2)) continue;
      probe(PR_PIN_CHECKED);
      uint32_t tag = p.ptr->raw_tag();
      uint64_t now = p.ptr->bits();
      if (tag == sim::TAG_DEAD || now != p.bits) {
        Violation v;
        v.prop = "C09";
        v.cls = tag == sim::TAG_DEAD ? "dangling-reference" : "referenced-grid-point-changed";
        v.detail = std::string("a reference returned by accessor ") + std::to_string(p.via) + " of a live, unmodified " +
                   (p.slot < 0 ? "shared const object" : "object") +
                   " no longer designates the same grid point after this operation";
        v.task = task;
        v.op = (int)idx;
        v.opkind = op.kind;
        v.site = op_name(op.kind);
        log.viol.push_back(v);
        continue;
      }
      keep.push_back(p);
    }
    log.pins.swap(keep);
  }
  log.obs.push_back(c.out.obs);
  log.status.push_back(c.out.status);
  log.fired.push_back((uint8_t)((sim::g_cur->fired_alloc ? 1 : 0) | (sim::g_cur->fired_scalar ? 2 : 0) |
                                (sim::g_cur->fired_cb ? 4 : 0)));
  log.steps.push_back(step_sig);
#ifdef SIM_EXACT
  retire_oversized(pool, log.pins);
#endif
}

void task_body(void *arg, int id) {
  WorldRun &wr = *static_cast<WorldRun *>(arg);
  const std::vector<Op> &prog = wr.plan->progs[id];
  TaskLog &log = wr.logs[id];
  Pool &pool = wr.w.priv[id];
  uint32_t i = 0;
  for (; i < prog.size(); i++) {
    if (sim::world_stopped()) break;
    run_op(wr, id, pool, prog[i], i, log);
    if (has_fatal(*wr.plan, log.viol)) {
      sim::stop_world();
      break;
    }
  }
  sim::begin_op((uint32_t)prog.size(), -1, -1, -1);
  if (!wr.plan->deep && wr.plan->cold_check && !sim::world_stopped() && i == prog.size() && !prog.empty()) {
    // cold runs: no oracle has evaluated anything so far, so whatever hidden
    // evaluation state the library keeps was filled by the program's own calls
    // (including its failed ones) only; every pooled spline must now evaluate
    // like a pristine twin on a freshly built grid
    sim::NoPreempt np;
    size_t n0 = log.viol.size();
    check_history_independence(pool, log.viol, "end-of-run");
    for (size_t k = n0; k < log.viol.size(); k++) {
      Violation &v = log.viol[k];
      v.task = id;
      v.op = (int)prog.size() - 1;
      v.opkind = prog.back().kind;
      v.site = "end-of-run";
    }
    if (has_fatal(*wr.plan, log.viol)) sim::stop_world();
  }
  log.finished = true;
}

uint64_t abstract_pool_state(const Pool &p) {
  sim::Exempt e;
  std::vector<uint64_t> shapes;
  try {
    for (int i = 0; i < NS; i++)
      if (p.s[i]) shapes.push_back(hmix(1, p.s[i]->getStartIndex() * 64 + p.s[i]->getEndIndex()));
    for (int i = 0; i < NP; i++)
      if (p.p[i])
        std::visit(
            [&](const auto &s) {
              bool zero = true;
              for (const auto &a : s.getCoefficients())
                for (const auto &x : a)
                  if (!(x.raw() == Val(0))) zero = false;
              shapes.push_back(hmix(2, ((uint64_t)p.p[i]->index() << 32) ^ (s.getSupport().getStartIndex() * 64 + s.getSupport().getEndIndex()) ^
                                           ((uint64_t)zero << 40) ^ ((uint64_t)s.getSupport().getGrid().getData()->size() << 48)));
            },
            *p.p[i]);
    for (int i = 0; i < NG; i++)
      if (p.g[i]) shapes.push_back(hmix(3, p.g[i]->getData()->size()));
  } catch (const std::exception &) {
    shapes.push_back(0xbad);
  }
  std::sort(shapes.begin(), shapes.end());
  uint64_t h = 0x9001;
  for (uint64_t s : shapes) h = hmix(h, s);
  return h;
}

struct WorldResult {
  std::vector<TaskLog> logs;
  TaskLog setup_log;
  sim::SchedStats stats;
  std::vector<sim::SwitchRec> switches;
  uint64_t pool_state = 0;
  size_t leaked = 0;
};

void run_world(const Plan &plan, const sim::SchedConfig &cfg, WorldResult &res) {
  size_t live0 = sim::live_library_allocations();
  {
    WorldRun wr;
    wr.plan = &plan;
    wr.w.plan = &plan;
    int n = (int)plan.progs.size();
    wr.logs.resize(n);
    wr.w.priv.resize(n);
    for (const auto &prog : plan.progs)
      for (const Op &o : prog)
        if (o.kind == OP_M_SEND) wr.w.mail[o.a];
    // shared pool: executed by main, fault-free, before the tasks exist
    uint32_t si = 0;
    for (const Op &o : plan.setup) {
      run_op(wr, -1, wr.w.shared, o, si++, wr.setup_log);
      if (has_fatal(plan, wr.setup_log.viol)) break;
    }
    wr.shared_snap = snapshot(wr.w.shared, false);
    if (!has_fatal(plan, wr.setup_log.viol)) {
      sim::run_tasks(n, task_body, &wr, cfg, res.stats, &res.switches);
    }
    for (int t = 0; t < n; t++) res.pool_state = hmix(res.pool_state, abstract_pool_state(wr.w.priv[t]));
    res.logs = std::move(wr.logs);
    res.setup_log = std::move(wr.setup_log);
    if (res.stats.deadlock) {
      // the abandoned fibers still reference world objects: leak the world
      // deliberately instead of destroying objects under them
      new WorldRun(std::move(wr));
      sim::live_reset();
      if (!g_isolate) sim::reset_library_guards();
      return;
    }
    // teardown in library mode (destruction is library code), main context
    sim::LibRegion lr;
    wr.w.priv.clear();
    wr.w.mail.clear();
    destroy_shared_objs(wr.w);
    // reset slot by slot: needs no assignment operator of any pooled class
    for (auto &x : wr.w.shared.o) x.reset();
    for (auto &x : wr.w.shared.og) x.reset();
    for (auto &x : wr.w.shared.gen) x.reset();
    for (auto &x : wr.w.shared.p) x.reset();
    for (auto &x : wr.w.shared.s) x.reset();
    for (auto &x : wr.w.shared.g) x.reset();
  }
  size_t live1 = sim::live_library_allocations();
  res.leaked = live1 > live0 ? live1 - live0 : 0;
  if (!g_isolate) sim::reset_library_guards();
}


// ------------------------------------------------------------------ isolation
// Every world runs in a process image that has executed no library code
// before: the batch loop forks one child per run (main.cpp) and the
// non-pre-emptive reference world of a run is executed in a child of its own
// here. Function-local statics, once-flags, atomics - whatever process-global
// state a library keeps - are therefore cold in every world, and no world can
// inherit anything from another one. The reference world's result comes back
// through shared memory.
constexpr int kMaxOpsShared = 512;
struct CanonShared {
  volatile int valid;
  int ntasks;
  sim::SchedStats stats;
  int tsan_reports;
  uint64_t pool_state;
  uint32_t nops[8];
  uint64_t obs[8][kMaxOpsShared];
  int32_t status[8][kMaxOpsShared];
  uint8_t fired[8][kMaxOpsShared];
  uint64_t steps[8][kMaxOpsShared];
  Counters cnt;
  uint64_t probes[256];
  uint32_t viol_len;
  char viol_json[65536];
};

sj::Value violation_to_json(const Violation &x) {
  using sj::Value;
  Value e = Value::Obj();
  e.set("prop", Value::Str(x.prop)).set("cls", Value::Str(x.cls)).set("site", Value::Str(x.site));
  e.set("task", Value::Int(x.task)).set("op", Value::Int(x.op)).set("opkind", Value::Int(x.opkind));
  e.set("detail", Value::Str(x.detail.substr(0, 600)));
  e.set("sweep_kind", Value::Int(x.sweep_kind)).set("sweep_k", Value::Int(x.sweep_k));
  return e;
}
Violation violation_from_json(const sj::Value &e) {
  Violation v;
  v.prop = e.gets("prop");
  v.cls = e.gets("cls");
  v.site = e.gets("site");
  v.task = (int)e.geti("task", -1);
  v.op = (int)e.geti("op", -1);
  v.opkind = (int)e.geti("opkind", -1);
  v.detail = e.gets("detail");
  v.sweep_kind = (int)e.geti("sweep_kind", -1);
  v.sweep_k = e.geti("sweep_k", -1);
  return v;
}

// returns false if the child running the world died (its death line has been
// printed by the child itself)
bool run_world_in_child(const Plan &plan, const sim::SchedConfig &cfg, WorldResult &res) {
  static CanonShared *shm = nullptr;
  if (!shm) {
    void *p = mmap(nullptr, sizeof(CanonShared), PROT_READ | PROT_WRITE, MAP_SHARED | MAP_ANONYMOUS, -1, 0);
    if (p == MAP_FAILED) {
      fprintf(stderr, "sim: mmap shared failed\n");
      _exit(2);
    }
    shm = static_cast<CanonShared *>(p);
  }
  shm->valid = 0;
  fflush(stdout);
  fflush(stderr);
  pid_t pid = fork();
  if (pid < 0) {
    fprintf(stderr, "sim: fork failed\n");
    _exit(2);
  }
  if (pid == 0) {
    WorldResult w;
    run_world(plan, cfg, w);
    int n = (int)w.logs.size();
    shm->ntasks = n;
    shm->stats = w.stats;
    shm->tsan_reports = sim::tsan_report_count();
    shm->pool_state = w.pool_state;
    Counters c = w.setup_log.cnt;
    sj::Value va = sj::Value::Arr();
    for (auto &v : w.setup_log.viol) {
      v.detail = std::string("[setup] ") + v.detail;
      va.push(violation_to_json(v));
    }
    for (int t = 0; t < n && t < 8; t++) {
      const TaskLog &l = w.logs[t];
      size_t m = std::min<size_t>(l.obs.size(), kMaxOpsShared);
      shm->nops[t] = (uint32_t)m;
      for (size_t i = 0; i < m; i++) {
        shm->obs[t][i] = l.obs[i];
        shm->status[t][i] = l.status[i];
        shm->fired[t][i] = l.fired[i];
        shm->steps[t][i] = l.steps[i];
      }
      add_counters(c, l.cnt);
      for (const auto &v : l.viol) va.push(violation_to_json(v));
    }
    shm->cnt = c;
    uint64_t *pa = probe_array();
    for (int k = 0; k < 256; k++) shm->probes[k] = pa[k];
    std::string js = va.str();
    if (js.size() >= sizeof(shm->viol_json)) js = "[]";
    memcpy(shm->viol_json, js.data(), js.size());
    shm->viol_len = (uint32_t)js.size();
    shm->valid = 1;
    fflush(stdout);
    fflush(stderr);
    _exit(0);
  }
  int st = 0;
  while (waitpid(pid, &st, 0) < 0) {
  }
  if (!shm->valid) return false;
  int n = shm->ntasks;
  res.logs.assign(n, TaskLog());
  res.stats = shm->stats;
  res.stats.tsan_reports = shm->tsan_reports;
  res.pool_state = shm->pool_state;
  for (int t = 0; t < n && t < 8; t++) {
    TaskLog &l = res.logs[t];
    for (uint32_t i = 0; i < shm->nops[t]; i++) {
      l.obs.push_back(shm->obs[t][i]);
      l.status.push_back(shm->status[t][i]);
      l.fired.push_back(shm->fired[t][i]);
      l.steps.push_back(shm->steps[t][i]);
    }
  }
  res.setup_log.cnt = shm->cnt;
  uint64_t *pa = probe_array();
  for (int k = 0; k < 256; k++) pa[k] += shm->probes[k];
  sj::Parser ps(std::string(shm->viol_json, shm->viol_len));
  sj::Value va = ps.parse();
  if (ps.ok)
    for (const sj::Value &e : va.a) {
      Violation v = violation_from_json(e);
      if (n > 0) res.logs[0].viol.push_back(v);
      else res.setup_log.viol.push_back(v);
    }
  return true;
}

}  // namespace

RunResult run_plan(const Plan &plan, const RunOptions &opt, Counters &cnt) {
  RunResult rr;
  Counters local;
  int n = (int)plan.progs.size();
  int tsan0 = sim::tsan_report_count();

  WorldResult canon;
  bool have_canon = false;
  if (plan.compare_canonical && n > 1 && plan.sched.policy != sim::P_RUN_TO_BLOCK) {
    sim::SchedConfig c0;
    c0.policy = sim::P_RUN_TO_BLOCK;
    c0.seed = plan.sched.seed;
    c0.static_init_throw = (uint32_t)plan.static_init_throw;
    if (g_isolate) {
      if (!run_world_in_child(plan, c0, canon)) {
        // the reference world died: so does this run (the child has printed
        // the death line); no RUN line is emitted for it
        fflush(stdout);
        fflush(stderr);
        _exit(75);
      }
    } else {
      run_world(plan, c0, canon);
    }
    have_canon = true;
    fold_stats(local, canon.stats);
  }
  WorldResult ex;
  sim::SchedConfig cfg = plan.sched;
  cfg.record = opt.record_switches;
  cfg.static_init_throw = (uint32_t)plan.static_init_throw;
  run_world(plan, cfg, ex);
  fold_stats(local, ex.stats);
  rr.stats = ex.stats;
  rr.switches = std::move(ex.switches);
  rr.pool_state = ex.pool_state;
  local.leaked_blocks += ex.leaked;

  auto collect = [&](WorldResult &w, const char *which) {
    for (auto &v : w.setup_log.viol) {
      v.detail = std::string("[setup] ") + v.detail;
      rr.viol.push_back(v);
    }
    for (auto &l : w.logs)
      for (auto &v : l.viol) {
        if (*which) v.detail = std::string(which) + v.detail;
        rr.viol.push_back(v);
      }
  };
  collect(ex, "");
  if (have_canon) collect(canon, "[canonical schedule] ");
  add_counters(local, ex.setup_log.cnt);
  for (auto &l : ex.logs) add_counters(local, l.cnt);

  // C18 oracle (b): results independent of the schedule
  // A fault inside a static initialiser hits whichever task gets there first:
  // the failing operation, and everything that depends on it, legitimately
  // differs between schedules, so oracle (b) is not evaluated for such a run
  // (TSan, the guard semantics and the progress oracle still are).
  bool static_fault = canon.stats.static_init_faults || ex.stats.static_init_faults;
  // Attached faults are addressed by (operation, k-th allocation / scalar
  // operation of that operation). A library may legitimately perform fewer such
  // steps in a call when another task has already done shared work (a correctly
  // synchronised cache): the same attached fault then fires under one schedule
  // and not under the other, and everything downstream differs for a reason that
  // is not the library's. Oracle (b) is therefore evaluated only when every
  // attached fault fired in the same operations under both schedules.
  bool fault_divergent = false;
  if (have_canon)
    for (int t = 0; t < n && !fault_divergent; t++) {
      const TaskLog &a = canon.logs[t], &b = ex.logs[t];
      size_t m = std::min(a.fired.size(), b.fired.size());
      for (size_t i = 0; i < m; i++)
        if (a.fired[i] != b.fired[i]) {
          fault_divergent = true;
          break;
        }
    }
  // ... and "the k-th allocation of this call" names the same allocation under
  // both schedules only if the call does the same work under both. With shared,
  // lazily built state (correctly synchronised or not) the amount of work a call
  // does depends on what other tasks did before; a fault index then lands on a
  // different allocation (one the library absorbs under one schedule, one it
  // has to propagate under the other). So in a run in which any attached fault
  // fired, oracle (b) is evaluated only if every operation went through the
  // same number of allocation, scalar and callback points under both
  // schedules. Fault-free runs are always judged.
  if (have_canon && !fault_divergent) {
    bool any_fired = false, steps_differ = false;
    for (int t = 0; t < n; t++) {
      const TaskLog &a = canon.logs[t], &b = ex.logs[t];
      for (uint8_t f : a.fired) any_fired |= f != 0;
      for (uint8_t f : b.fired) any_fired |= f != 0;
      size_t m = std::min(a.steps.size(), b.steps.size());
      for (size_t i = 0; i < m; i++) steps_differ |= a.steps[i] != b.steps[i];
    }
    if (any_fired && steps_differ) fault_divergent = true;
  }
  if (fault_divergent && !static_fault) local.runs_fault_divergent++;  // (static-initialiser faults are skipped anyway)
  if (have_canon && rr.viol.empty() && !ex.stats.deadlock && !canon.stats.deadlock && !static_fault && !fault_divergent) {
    for (int t = 0; t < n; t++) {
      const TaskLog &a = canon.logs[t], &b = ex.logs[t];
      size_t m = std::min(a.obs.size(), b.obs.size());
      bool bad = a.obs.size() != b.obs.size();
      size_t at = m;
      for (size_t i = 0; i < m; i++) {
        local.canonical_compared_ops++;
        if (a.obs[i] != b.obs[i] || a.status[i] != b.status[i]) {
          bad = true;
          at = i;
          break;
        }
      }
      if (bad) {
        Violation v;
        v.prop = "C18";
        v.cls = "schedule-dependent-result";
        v.task = t;
        v.op = (int)at;
        v.opkind = at < plan.progs[t].size() ? plan.progs[t][at].kind : -1;
        v.site = op_name(v.opkind);
        v.detail = "task " + std::to_string(t) + " op " + std::to_string(at) + " (" + v.site +
                   "): result differs from the non-pre-emptive schedule of the same plan (status " +
                   (at < m ? std::string(status_name(b.status[at])) + " vs " + status_name(a.status[at]) : std::string("length")) + ")";
        rr.viol.push_back(v);
        break;
      }
    }
  }
  if (ex.stats.deadlock) {
    bool canon_dead = have_canon && canon.stats.deadlock;
    if (!canon_dead) {
      Violation v;
      v.prop = "C18";
      v.cls = "deadlock";
      v.site = "scheduler";
      v.detail = "no task runnable while some are unfinished (explored schedule)";
      rr.viol.push_back(v);
    } else {
      rr.note = "plan deadlocks under the canonical schedule as well";
    }
    local.runs_deadlock++;
  }
  int tsan_new = sim::tsan_report_count() - tsan0 + (have_canon && g_isolate ? canon.stats.tsan_reports : 0);
  if (tsan_new > 0) {
    Violation v;
    v.prop = "C18";
    v.cls = "data-race";
    v.site = "tsan";
    v.detail = std::to_string(tsan_new) + " ThreadSanitizer report(s) during this run (see stderr)";
    rr.viol.push_back(v);
  }

  // event-log hash and signature
  uint64_t h = 0x10f;
  for (auto &l : ex.logs) {
    h = hmix(h, l.obs.size());
    for (size_t i = 0; i < l.obs.size(); i++) h = hmix(h, l.obs[i] ^ ((uint64_t)l.status[i] << 56));
  }
  for (size_t i = 0; i < ex.setup_log.obs.size(); i++) h = hmix(h, ex.setup_log.obs[i]);
  h = hmix(h, ex.stats.switch_hash);
  h = hmix(h, ex.stats.steps);
  h = hmix(h, rr.viol.size());
  for (auto &v : rr.viol) {
    for (char ch : v.prop + v.cls) h = hmix(h, (uint64_t)ch);
    h = hmix(h, (uint64_t)(v.task + 2) * 1000 + (uint64_t)(v.op + 2));
  }
  rr.hash = h;
  uint64_t kinds[OP_NKINDS] = {};
  uint64_t fk[F_NKINDS] = {};
  bool any_fault = false, any_state_change = false;
  for (const auto &prog : plan.progs)
    for (const Op &o : prog) {
      kinds[o.kind]++;
      for (const Fault &f : o.faults) {
        if (f.kind >= 0 && f.kind < F_NKINDS) fk[f.kind]++;
        any_fault = true;
      }
      if (o.kind != OP_P_EVAL && o.kind != OP_G_QUERY && o.kind != OP_S_QUERY && o.kind != OP_P_ISZERO) any_state_change = true;
    }
  uint64_t sig = 0x51;
  for (int i = 0; i < OP_NKINDS; i++) sig = hmix(sig, kinds[i]);
  for (int i = 0; i < F_NKINDS; i++) sig = hmix(sig, fk[i]);
  sig = hmix(sig, ex.stats.switch_hash);
  sig = hmix(sig, plan.sweep);
  rr.sig = sig;
  rr.nontrivial = any_fault || ex.stats.switches > (uint64_t)n + 1 || any_state_change;

  local.runs = 1;
  if (n > 1) local.runs_multi++;
  if (plan.sweep) local.runs_sweep++;
  if (!any_fault && !plan.sweep) local.runs_faultfree++;
  if (ex.stats.budget_exceeded) local.runs_budget++;
  if (plan.sched.policy >= 0 && plan.sched.policy < 5) local.policy_runs[plan.sched.policy]++;
  if (!rr.viol.empty()) {
    rr.status = "violation";
    local.runs_violation++;
  } else if (ex.stats.deadlock) {
    rr.status = "inconclusive";
  } else {
    rr.status = "ok";
  }
  add_counters(cnt, local);
  return rr;
}

void set_isolate(bool on) { g_isolate = on; }
void add_counters_public(Counters &a, const Counters &b) { add_counters(a, b); }

// ------------------------------------------------------------------ JSON
sj::Value counters_to_json(const Counters &c) {
  using sj::Value;
  Value v = Value::Obj();
  Value ops = Value::Obj();
  for (int i = 0; i < OP_NKINDS; i++)
    if (c.ops[i]) ops.set(op_name(i), Value::U64(c.ops[i]));
  v.set("ops", ops);
  Value st = Value::Obj();
  for (int i = 0; i <= ST_OTHER_EXC; i++)
    if (c.ops_status[i]) st.set(status_name(i), Value::U64(c.ops_status[i]));
  v.set("op_status", st);
  static const char *fn[] = {"alloc_fail", "scalar_throw", "callback_throw"};
  Value fa = Value::Obj(), ff = Value::Obj(), fs = Value::Obj();
  for (int i = 0; i < F_NKINDS; i++) {
    fa.set(fn[i], Value::U64(c.faults_attached[i]));
    ff.set(fn[i], Value::U64(c.faults_fired[i]));
    fs.set(fn[i], Value::U64(c.sweep_points[i]));
  }
  v.set("faults_attached", fa).set("faults_fired", ff).set("sweep_points", fs);
  v.set("sweep_ops", Value::U64(c.sweep_ops));
  v.set("steps", Value::U64(c.steps)).set("switches", Value::U64(c.switches));
  v.set("switches_in_exception", Value::U64(c.switches_in_exception));
  static const char *yn[] = {"scalar", "alloc", "free", "guard", "callback", "op_boundary", "mailbox"};
  Value y = Value::Obj();
  for (int i = 0; i < sim::Y_NKINDS; i++) y.set(yn[i], Value::U64(c.yields[i]));
  v.set("yields", y);
  v.set("guard_inits", Value::U64(c.guard_inits)).set("guard_contended", Value::U64(c.guard_contended));
  v.set("guard_aborts", Value::U64(c.guard_aborts)).set("blocked", Value::U64(c.blocked));
  v.set("runs", Value::U64(c.runs)).set("runs_violation", Value::U64(c.runs_violation));
  v.set("runs_deadlock", Value::U64(c.runs_deadlock)).set("runs_budget", Value::U64(c.runs_budget));
  v.set("runs_multi", Value::U64(c.runs_multi)).set("runs_sweep", Value::U64(c.runs_sweep));
  v.set("runs_faultfree", Value::U64(c.runs_faultfree));
  v.set("canonical_compared_ops", Value::U64(c.canonical_compared_ops));
  v.set("runs_fault_divergent", Value::U64(c.runs_fault_divergent));
  v.set("tsan_reports", Value::U64(c.tsan_reports)).set("leaked_blocks", Value::U64(c.leaked_blocks));
  static const char *pn[] = {"run_to_block", "random_walk", "pct", "stall", "script"};
  Value pol = Value::Obj();
  for (int i = 0; i < 5; i++) pol.set(pn[i], Value::U64(c.policy_runs[i]));
  v.set("policy_runs", pol);
  Value pr = Value::Obj();
  uint64_t *pa = probe_array();
  for (int i = 0; i < PR_NKINDS; i++) pr.set(probe_name(i), Value::U64(pa[i]));
  v.set("probes", pr);
  Value mx = Value::Obj();
  for (int e = 0; e < E_N; e++) {
    Value row = Value::Obj();
    for (int d = 0; d < D_N; d++) row.set(diff_name(d), Value::U64(pa[PR_MATRIX0 + e * D_N + d]));
    mx.set(entry_name(e), row);
  }
  v.set("c08_matrix", mx);
  return v;
}

sj::Value result_to_json(const RunResult &r, long run_index, uint64_t seed) {
  using sj::Value;
  Value v = Value::Obj();
  v.set("i", Value::Int(run_index)).set("seed", Value::U64(seed));
  v.set("st", Value::Str(r.status));
  v.set("h", Value::U64(r.hash)).set("sig", Value::U64(r.sig)).set("ps", Value::U64(r.pool_state));
  v.set("nt", Value::Int(r.nontrivial));
  v.set("steps", Value::U64(r.stats.steps)).set("sw", Value::U64(r.stats.switches));
  if (!r.note.empty()) v.set("note", Value::Str(r.note));
  if (!r.viol.empty()) {
    Value a = Value::Arr();
    size_t n = 0;
    for (const Violation &x : r.viol) {
      if (n++ >= 8) break;
      Value e = Value::Obj();
      e.set("prop", Value::Str(x.prop)).set("cls", Value::Str(x.cls)).set("site", Value::Str(x.site));
      e.set("task", Value::Int(x.task)).set("op", Value::Int(x.op));
      e.set("opkind", Value::Str(op_name(x.opkind)));
      e.set("detail", Value::Str(x.detail.substr(0, 600)));
      if (x.sweep_kind >= 0) e.set("sweep_kind", Value::Int(x.sweep_kind)).set("sweep_k", Value::Int(x.sweep_k));
      a.push(e);
    }
    v.set("viol", a);
  }
  if (!r.switches.empty()) {
    Value sc = Value::Arr();
    for (const sim::SwitchRec &s : r.switches) {
      Value e = Value::Arr();
      e.push(Value::Int(s.task)).push(Value::Int(s.op)).push(Value::Int(s.yidx)).push(Value::Int(s.to)).push(Value::Int(s.why));
      sc.push(e);
    }
    v.set("switches", sc);
  }
  return v;
}

}  // namespace simw
