// Plan generation (swarm style: everything varies per run) and (de)serialisation.
#include "world.h"

namespace simw {

// ------------------------------------------------------------------ JSON
static sj::Value op_to_json(const Op &o) {
  sj::Value v = sj::Value::Obj();
  v.set("k", sj::Value::Str(op_name(o.kind)));
  v.set("a", sj::Value::Int(o.a)).set("b", sj::Value::Int(o.b));
  v.set("c", sj::Value::Int(o.c)).set("d", sj::Value::Int(o.d));
  if (!o.faults.empty()) {
    sj::Value f = sj::Value::Arr();
    for (const Fault &x : o.faults) {
      sj::Value e = sj::Value::Arr();
      e.push(sj::Value::Int(x.kind)).push(sj::Value::Int(x.k));
      f.push(e);
    }
    v.set("f", f);
  }
  return v;
}
static bool op_from_json(const sj::Value &v, Op &o) {
  if (v.kind != sj::Value::OBJ) return false;
  o.kind = op_from_name(v.gets("k"));
  if (o.kind < 0) return false;
  o.a = (uint32_t)v.geti("a");
  o.b = (uint32_t)v.geti("b");
  o.c = (uint32_t)v.geti("c");
  o.d = (uint32_t)v.geti("d");
  o.faults.clear();
  if (const sj::Value *f = v.get("f"))
    for (const sj::Value &e : f->a)
      if (e.a.size() == 2) o.faults.push_back(Fault{(int)e.a[0].i, e.a[1].i});
  return true;
}

sj::Value plan_to_json(const Plan &p) {
  sj::Value v = sj::Value::Obj();
  v.set("check", sj::Value::Str(p.check));
  v.set("seed", sj::Value::U64(p.seed));
  v.set("gn", sj::Value::Int(p.gn)).set("gseed", sj::Value::U64(p.gseed)).set("far", sj::Value::Int(p.far));
  sj::Value su = sj::Value::Arr();
  for (const Op &o : p.setup) su.push(op_to_json(o));
  v.set("setup", su);
  sj::Value pr = sj::Value::Arr();
  for (const auto &prog : p.progs) {
    sj::Value a = sj::Value::Arr();
    for (const Op &o : prog) a.push(op_to_json(o));
    pr.push(a);
  }
  v.set("progs", pr);
  sj::Value s = sj::Value::Obj();
  s.set("policy", sj::Value::Int(p.sched.policy)).set("seed", sj::Value::U64(p.sched.seed));
  s.set("period", sj::Value::Int(p.sched.period)).set("pct_depth", sj::Value::Int(p.sched.pct_depth));
  s.set("est_steps", sj::Value::Int(p.sched.est_steps));
  if (!p.sched.script.empty() || p.sched.policy == sim::P_SCRIPT) {
    sj::Value sc = sj::Value::Arr();
    for (const sim::SwitchRec &r : p.sched.script) {
      sj::Value e = sj::Value::Arr();
      e.push(sj::Value::Int(r.task)).push(sj::Value::Int(r.op)).push(sj::Value::Int(r.yidx));
      e.push(sj::Value::Int(r.to)).push(sj::Value::Int(r.why));
      sc.push(e);
    }
    s.set("script", sc);
  }
  v.set("sched", s);
  v.set("sweep", sj::Value::Int(p.sweep)).set("sweep_cap", sj::Value::Int(p.sweep_cap));
  v.set("compare_canonical", sj::Value::Int(p.compare_canonical));
  v.set("static_init_throw", sj::Value::Int(p.static_init_throw));
  v.set("deep", sj::Value::Int(p.deep));
  v.set("cold_check", sj::Value::Int(p.cold_check));
  return v;
}

bool plan_from_json(const sj::Value &v, Plan &p, std::string &err) {
  if (v.kind != sj::Value::OBJ) {
    err = "plan is not an object";
    return false;
  }
  p = Plan();
  p.check = v.gets("check");
  p.seed = (uint64_t)v.geti("seed");
  p.gn = (int)v.geti("gn", 5);
  if (p.gn < 2) p.gn = 2;
  if (p.gn > 12) p.gn = 12;
  p.gseed = (uint64_t)v.geti("gseed");
  p.far = (int)v.geti("far");
  if (const sj::Value *su = v.get("setup"))
    for (const sj::Value &o : su->a) {
      Op op;
      if (!op_from_json(o, op)) {
        err = "bad setup op";
        return false;
      }
      p.setup.push_back(op);
    }
  if (const sj::Value *pr = v.get("progs"))
    for (const sj::Value &a : pr->a) {
      std::vector<Op> prog;
      for (const sj::Value &o : a.a) {
        Op op;
        if (!op_from_json(o, op)) {
          err = "bad op";
          return false;
        }
        prog.push_back(op);
      }
      p.progs.push_back(prog);
    }
  if (p.progs.empty() || p.progs.size() > 8) {
    err = "need 1..8 programs";
    return false;
  }
  if (const sj::Value *s = v.get("sched")) {
    p.sched.policy = (int)s->geti("policy");
    p.sched.seed = (uint64_t)s->geti("seed");
    p.sched.period = (uint32_t)s->geti("period", 16);
    p.sched.pct_depth = (uint32_t)s->geti("pct_depth", 2);
    p.sched.est_steps = (uint32_t)s->geti("est_steps", 20000);
    if (const sj::Value *sc = s->get("script"))
      for (const sj::Value &e : sc->a)
        if (e.a.size() == 5)
          p.sched.script.push_back(sim::SwitchRec{(int)e.a[0].i, (uint32_t)e.a[1].i, (uint32_t)e.a[2].i,
                                                  (int)e.a[3].i, (uint8_t)e.a[4].i});
  }
  p.sweep = (int)v.geti("sweep");
  p.sweep_cap = (int)v.geti("sweep_cap", 64);
  p.compare_canonical = (int)v.geti("compare_canonical");
  p.static_init_throw = (int)v.geti("static_init_throw");
  p.deep = (int)v.geti("deep");
  p.cold_check = (int)v.geti("cold_check");
  return true;
}

// ------------------------------------------------------------------ generation
namespace {

struct W {
  int kind;
  int w;
};

enum Prof { PROF_HIST, PROF_ARITH, PROF_XGRID, PROF_CONC };

// weights per profile
const W kHist[] = {
    {OP_G_NEW, 3}, {OP_G_BAD, 2}, {OP_G_COPY, 2}, {OP_G_ASSIGN, 2}, {OP_G_DROP, 1}, {OP_G_QUERY, 2}, {OP_G_EQ, 1},
    {OP_S_NEW, 4}, {OP_S_BAD, 2}, {OP_S_EMPTY, 1}, {OP_S_WHOLE, 1}, {OP_S_COPY, 2}, {OP_S_ASSIGN, 3},
    {OP_S_MOVE, 3}, {OP_S_MOVE_ASSIGN, 4}, {OP_S_DROP, 1}, {OP_S_UNION, 2}, {OP_S_INTERSECT, 2},
    {OP_S_QUERY, 4}, {OP_S_EQ, 1},
    {OP_P_NEW, 6}, {OP_P_BAD, 2}, {OP_P_EMPTY, 1}, {OP_P_COPY, 4}, {OP_P_ASSIGN, 6}, {OP_P_MOVE, 4},
    {OP_P_MOVE_ASSIGN, 4}, {OP_P_XASSIGN, 4}, {OP_P_DROP, 1}, {OP_P_ADD, 4}, {OP_P_SUB, 3}, {OP_P_MUL, 3},
    {OP_P_IADD, 6}, {OP_P_ISUB, 5}, {OP_P_SCALE, 2}, {OP_P_LSCALE, 1}, {OP_P_DIV, 2}, {OP_P_NEG, 1},
    {OP_P_ISCALE, 4}, {OP_P_IDIV, 3}, {OP_P_LINCOMB, 4}, {OP_P_EVAL, 4}, {OP_P_FRONTBACK, 1},
    {OP_P_ISZERO, 1}, {OP_P_OVERLAP, 1}, {OP_P_EQ, 1},
    {OP_O_APPLY, 6}, {OP_O_BILIN, 3}, {OP_O_LIN, 2}, {OP_O_HOLD, 2}, {OP_O_HELD_APPLY, 3},
    {OP_O_HELD_COPY, 1}, {OP_O_DROP, 1}, {OP_O_SH_APPLY, 2}, {OP_O_SH_BILIN, 1}, {OP_O_SH_LIN, 1},
    {OP_N_NEW, 2}, {OP_N_BAD, 1}, {OP_N_GEN, 3}, {OP_N_COPY, 1}, {OP_N_ASSIGN, 2}, {OP_N_DROP, 1},
    {OP_I_INTERP, 2}, {OP_Q_NUMINT, 1}, {OP_X_PIN, 4}};
const W kArith[] = {
    {OP_S_NEW, 3}, {OP_S_EMPTY, 1}, {OP_S_WHOLE, 1},
    {OP_P_NEW, 8}, {OP_P_EMPTY, 1}, {OP_P_COPY, 2}, {OP_P_ASSIGN, 4}, {OP_P_MOVE, 2}, {OP_P_MOVE_ASSIGN, 2},
    {OP_P_XASSIGN, 5}, {OP_P_ADD, 8}, {OP_P_SUB, 6}, {OP_P_MUL, 7}, {OP_P_IADD, 9}, {OP_P_ISUB, 7},
    {OP_P_SCALE, 3}, {OP_P_LSCALE, 2}, {OP_P_DIV, 3}, {OP_P_NEG, 2}, {OP_P_ISCALE, 4}, {OP_P_IDIV, 4},
    {OP_P_LINCOMB, 7}, {OP_P_EVAL, 1}, {OP_N_GEN, 2}, {OP_I_INTERP, 1}, {OP_G_NEW, 1}, {OP_P_DROP, 1}, {OP_X_PIN, 1}};
const W kXgrid[] = {
    {OP_G_NEW, 5}, {OP_G_COPY, 1}, {OP_S_NEW, 5}, {OP_S_WHOLE, 1}, {OP_S_EMPTY, 1},
    {OP_P_NEW, 9}, {OP_P_EMPTY, 2}, {OP_P_COPY, 1},
    {OP_P_ADD, 5}, {OP_P_SUB, 4}, {OP_P_MUL, 5}, {OP_P_IADD, 5}, {OP_P_ISUB, 4}, {OP_P_LINCOMB, 6},
    {OP_O_APPLY, 7}, {OP_O_BILIN, 7}, {OP_O_LIN, 4}, {OP_O_HOLD, 3}, {OP_O_HELD_APPLY, 4}, {OP_O_SH_APPLY, 2}, {OP_O_SH_BILIN, 2}, {OP_O_SH_LIN, 1},
    {OP_N_NEW, 4}, {OP_N_GEN, 2}, {OP_Q_NUMINT, 4}, {OP_S_UNION, 1}, {OP_S_INTERSECT, 1}, {OP_P_EVAL, 1}, {OP_X_PIN, 3}};
const W kConc[] = {
    {OP_G_COPY, 3}, {OP_G_DROP, 2}, {OP_G_QUERY, 1}, {OP_G_EQ, 2},
    {OP_S_NEW, 2}, {OP_S_COPY, 3}, {OP_S_DROP, 2}, {OP_S_UNION, 2}, {OP_S_INTERSECT, 2}, {OP_S_QUERY, 1},
    {OP_S_EQ, 1}, {OP_S_MOVE, 1},
    {OP_P_NEW, 2}, {OP_P_COPY, 6}, {OP_P_DROP, 4}, {OP_P_MOVE, 1}, {OP_P_ASSIGN, 2}, {OP_P_ADD, 4},
    {OP_P_SUB, 2}, {OP_P_MUL, 4}, {OP_P_IADD, 2}, {OP_P_SCALE, 2}, {OP_P_LSCALE, 1}, {OP_P_DIV, 1},
    {OP_P_NEG, 1}, {OP_P_ISCALE, 1}, {OP_P_LINCOMB, 3}, {OP_P_EVAL, 8}, {OP_P_FRONTBACK, 1},
    {OP_P_ISZERO, 6}, {OP_P_OVERLAP, 2}, {OP_P_EQ, 2},
    {OP_O_APPLY, 6}, {OP_O_BILIN, 5}, {OP_O_LIN, 3}, {OP_O_HOLD, 1}, {OP_O_HELD_APPLY, 4},
    {OP_O_HELD_COPY, 2}, {OP_O_DROP, 1}, {OP_O_SH_APPLY, 6}, {OP_O_SH_BILIN, 5}, {OP_O_SH_LIN, 3},
    {OP_N_GEN, 4}, {OP_N_COPY, 2}, {OP_N_ASSIGN, 1}, {OP_N_DROP, 1}, {OP_N_NEW, 1}, {OP_I_INTERP, 1}, {OP_Q_NUMINT, 1}, {OP_X_PIN, 6}};

template <size_t N>
int draw(sim::Rng &r, const W (&tab)[N], const std::vector<bool> &enabled) {
  int total = 0;
  for (size_t i = 0; i < N; i++)
    if (enabled[tab[i].kind]) total += tab[i].w;
  if (total == 0) return tab[0].kind;
  int x = (int)r.below((uint32_t)total);
  for (size_t i = 0; i < N; i++) {
    if (!enabled[tab[i].kind]) continue;
    x -= tab[i].w;
    if (x < 0) return tab[i].kind;
  }
  return tab[0].kind;
}

int draw_kind(sim::Rng &r, Prof p, const std::vector<bool> &en) {
  switch (p) {
    case PROF_HIST: return draw(r, kHist, en);
    case PROF_ARITH: return draw(r, kArith, en);
    case PROF_XGRID: return draw(r, kXgrid, en);
    default: return draw(r, kConc, en);
  }
}

Op mk(int kind, uint32_t a = 0, uint32_t b = 0, uint32_t c = 0, uint32_t d = 0) {
  Op o;
  o.kind = kind;
  o.a = a;
  o.b = b;
  o.c = c;
  o.d = d;
  return o;
}

Op random_op(sim::Rng &r, Prof prof, const std::vector<bool> &en) {
  Op o;
  o.kind = draw_kind(r, prof, en);
  o.a = r.below(1u << 16);
  o.b = r.below(1u << 16);
  o.c = r.below(1u << 16);
  o.d = r.below(1u << 16);
  // bias a few arguments
  if (o.kind == OP_G_NEW) {
    // mostly the base grid (shared storage) or an equal copy; foreign grids by profile
    uint32_t x = r.below(100);
    uint32_t foreign_pct = prof == PROF_XGRID ? 45 : prof == PROF_HIST ? 25 : 12;
    if (x < foreign_pct) o.b = 2 + r.below(7);
    else if (x < foreign_pct + 25) o.b = r.below(4) ? 1 : 9;
    else o.b = 0;
  }
  return o;
}

void attach_faults(sim::Rng &r, Op &o, uint32_t pct) {
  if (r.below(100) >= pct) return;
  uint32_t kind = r.below(10);
  if (o.kind == OP_I_INTERP || o.kind == OP_Q_NUMINT) {
    if (kind < 4) {
      o.faults.push_back(Fault{F_CALLBACK, (int64_t)r.below(1u << r.below(8))});
      return;
    }
  }
  if (kind < 5) o.faults.push_back(Fault{F_ALLOC, (int64_t)r.below(1u << r.below(4))});
  else o.faults.push_back(Fault{F_SCALAR, (int64_t)r.below(1u << r.below(9))});
}

}  // namespace

Plan make_plan(const Profile &prof, uint64_t seed) {
  Plan p;
  p.check = prof.check;
  p.seed = seed;
  sim::Rng r(sim::mix3(seed, 0x91a7, 0));  // the *plan* stream
  Prof pf = prof.check == "C18"   ? PROF_CONC
            : prof.check == "C03" ? PROF_ARITH
            : prof.check == "C08" ? PROF_XGRID
                                  : PROF_HIST;
  // C09 draws from all profiles (union of the worlds)
  if (prof.check == "C09") {
    uint32_t x = r.below(10);
    pf = x < 5 ? PROF_HIST : x < 7 ? PROF_XGRID : x < 8 ? PROF_ARITH : PROF_CONC;
  }
  p.gn = r.range(3, prof.thorough ? 9 : 7);
  p.gseed = r.next() & 0xffffffffu;
#ifndef SIM_EXACT
  p.far = r.below(12) == 0;
#endif

  // swarm: a random subset of operation kinds is disabled per run
  std::vector<bool> en(OP_NKINDS, true);
  for (int k = 0; k < OP_NKINDS; k++)
    if (r.below(8) == 0) en[k] = false;

  // ---- shared pool
  uint32_t foreign = 2 + r.below(7);
  p.setup.push_back(mk(OP_G_NEW, 0, 0, 0, r.below(3)));
  p.setup.push_back(mk(OP_G_NEW, 1, r.below(4) ? 1 : 9, 0, r.below(3)));
  p.setup.push_back(mk(OP_G_NEW, 2, pf == PROF_CONC && r.below(3) ? 1 : foreign, r.below(16), r.below(3)));
  p.setup.push_back(mk(OP_S_WHOLE, 0, 0));
  p.setup.push_back(mk(OP_S_NEW, 1, 0, r.below(64), r.below(64)));
  p.setup.push_back(mk(OP_S_NEW, 2, r.below(3), r.below(64), r.below(64)));
  p.setup.push_back(mk(r.below(2) ? OP_S_EMPTY : OP_S_NEW, 3, r.below(3), r.below(64), 0));
  p.setup.push_back(mk(OP_N_NEW, 0, r.below(64), r.below(2), 0));
  p.setup.push_back(mk(OP_N_NEW, 1, r.below(64), r.below(2), r.below(3)));
  p.setup.push_back(mk(OP_N_GEN, 0, 1 + r.below(MAXORD), 0, r.below(16)));
  p.setup.push_back(mk(OP_N_GEN, r.below(2), r.below(MAXORD + 1), 1, r.below(16)));
  p.setup.push_back(mk(OP_P_NEW, 2, r.below(4), r.below(MAXORD + 1), r.below(1u << 16)));
  p.setup.push_back(mk(OP_P_NEW, 3, 2, r.below(3), r.below(1u << 16)));
  p.setup.push_back(mk(OP_I_INTERP, 4, r.below(2), r.below(3), 1 + r.below(1000)));
  p.setup.push_back(mk(r.below(3) ? OP_P_NEW : OP_P_EMPTY, 5, r.below(4), r.below(MAXORD + 1), r.below(1u << 16)));
  p.setup.push_back(mk(OP_O_HOLD, 0, r.below(6)));
  p.setup.push_back(mk(OP_O_HOLD, 1, r.below(6)));
  p.setup.push_back(mk(OP_O_SH_BUILD, r.below(64), r.below(64), r.below(64), r.below(1u << 16)));
  {
    std::vector<bool> all(OP_NKINDS, true);
    int extra = r.range(0, 4);
    for (int i = 0; i < extra; i++) p.setup.push_back(random_op(r, PROF_ARITH, all));
  }

  // ---- tasks
  int ntasks = 1;
  if (pf == PROF_CONC) ntasks = r.range(2, prof.thorough ? (r.below(4) ? 4 : 6) : 3);
  else if (r.below(5) == 0) ntasks = r.range(2, 3);
  if (prof.check == "C18") ntasks = std::max(ntasks, 2);
  uint32_t fault_pct = pf == PROF_HIST ? 15 : pf == PROF_ARITH ? 8 : pf == PROF_XGRID ? 10 : 2;
  if (r.below(4) == 0) fault_pct = 0;  // fault-free configuration
  if (r.below(10) == 0) fault_pct *= 3;
  int maxlen = prof.thorough ? 60 : 30;
  if (pf == PROF_CONC) maxlen = prof.thorough ? 40 : 24;
  size_t total_ops = 0;
  for (int t = 0; t < ntasks; t++) {
    std::vector<Op> prog;
    // prologue: a few private objects so that histories have something to chew on
    prog.push_back(mk(OP_G_NEW, 0, 0));
    prog.push_back(mk(OP_S_NEW, 0, 0, r.below(64), r.below(64)));
    prog.push_back(mk(OP_P_NEW, 0, r.below(8), r.below(MAXORD + 1), r.below(1u << 16)));
    prog.push_back(mk(OP_P_COPY, 1, NP + r.below(NP)));
    if (r.below(2)) prog.push_back(mk(OP_P_NEW, 2, r.below(8), r.below(MAXORD + 1), r.below(1u << 16)));
    int len = r.range(5, maxlen);
    for (int i = 0; i < len; i++) {
      Op o = random_op(r, pf, en);
      attach_faults(r, o, fault_pct);
      prog.push_back(o);
      if (!o.faults.empty() && r.below(3) == 0) {
        // the caller retries the failed call (same operation, no fault)
        Op retry = o;
        retry.faults.clear();
        prog.push_back(retry);
      }
    }
    total_ops += prog.size();
    p.progs.push_back(prog);
  }
  // ---- messages (Kahn style: per task, message events appear in id order)
  if (ntasks > 1) {
    int nmsg = r.range(0, pf == PROF_CONC ? 5 : 2);
    std::vector<size_t> last(ntasks, 5);
    for (int m = 0; m < nmsg; m++) {
      int u = (int)r.below(ntasks), w = (int)r.below(ntasks - 1);
      if (w >= u) w++;
      auto ins = [&](int t, Op o) {
        std::vector<Op> &prog = p.progs[t];
        size_t lo = std::min(last[t], prog.size());
        size_t pos = lo + r.below((uint32_t)(prog.size() - lo + 1));
        prog.insert(prog.begin() + (long)pos, o);
        last[t] = pos + 1;
      };
      ins(u, mk(OP_M_SEND, (uint32_t)m, r.below(1u << 16)));
      ins(w, mk(OP_M_RECV, (uint32_t)m, r.below(1u << 16)));
    }
  }

  // ---- schedule
  p.sched.seed = r.next() & 0x7fffffffffffffffull;
  p.sched.est_steps = (uint32_t)(total_ops * 250 + 100);
  if (ntasks == 1) {
    p.sched.policy = sim::P_RUN_TO_BLOCK;
  } else {
    uint32_t x = r.below(10);
    if (x < 5) {
      p.sched.policy = sim::P_RANDOM_WALK;
      static const uint32_t periods[] = {2, 8, 32, 128, 512};
      p.sched.period = periods[r.below(5)];
    } else if (x < 8) {
      p.sched.policy = sim::P_PCT;
      p.sched.pct_depth = 1 + r.below(3);
    } else if (x < 9) {
      p.sched.policy = sim::P_STALL;
      p.sched.period = 4 + r.below(60);
    } else {
      p.sched.policy = sim::P_RUN_TO_BLOCK;
    }
  }
  p.compare_canonical = ntasks > 1 ? 1 : 0;
  if (pf == PROF_CONC && ntasks > 1) {
    // hot start: several tasks query isZero of the same shared splines first,
    // so that the function-local static is initialised under contention
    if (r.below(3) == 0)
      for (int t = 0; t < ntasks; t++) {
        uint32_t which = NP + r.below(2);
        p.progs[t].insert(p.progs[t].begin(), mk(OP_P_ISZERO, which));
        if (r.below(2)) p.progs[t].insert(p.progs[t].begin() + 1, mk(OP_P_ISZERO, NP + r.below(NP)));
      }
    if (r.below(8) == 0) p.static_init_throw = 1 + (int)r.below(3);
  }
  // ---- sweeps: history profiles, sequential worlds mostly
  if ((pf == PROF_HIST || pf == PROF_ARITH || pf == PROF_XGRID) && prof.check != "C18") {
    uint32_t pct = (prof.check == "C10" || prof.check == "C14") ? 60 : prof.check == "C09" ? 40 : 15;
    if (ntasks > 1) pct /= 3;
    p.sweep = r.below(100) < pct;
    p.sweep_cap = prof.thorough ? 64 : 24;
  }
  p.deep = (prof.check == "C14" || prof.check == "C10") ? 1 : (prof.check == "C09" ? (int)r.below(2) : 0);
  // a quarter of the C14 worlds run cold: snapshots without evaluations, and the
  // history-independence oracle only once, at the end of every task (an oracle
  // that evaluates before every operation fills - correctly - whatever lazy
  // evaluation state the library keeps, and so hides a fill that goes wrong
  // only when it is the *first* one and a fault hits it)
  if (prof.check == "C14" && r.below(4) == 0) p.deep = 0;
  p.cold_check = (prof.check == "C14" || prof.check == "C09") && !p.deep;
  // ... and a third of the cold worlds let the k-th scalar operation executed
  // inside a lazily run initialiser (function-local static, call_once routine)
  // fail: an initialiser that publishes a half-built table is visible only to
  // later calls, i.e. to the end-of-run oracle
  if (p.cold_check && prof.check == "C14" && r.below(3) == 0) p.static_init_throw = 1 + (int)r.below(16);
  return p;
}

}  // namespace simw
