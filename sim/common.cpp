// Harness helpers: hashing, selection, grid family, C10 invariants, C14
// snapshots, C03 reference model, names, probes.
#include "ops_util.h"

#include <algorithm>
#include <cmath>
#include <sstream>

namespace simw {

using bspline::exceptions::BSplineException;

// ------------------------------------------------------------------ names
static const char *kOpNames[OP_NKINDS] = {
    "G_NEW", "G_BAD", "G_COPY", "G_ASSIGN", "G_DROP", "G_QUERY", "G_EQ",
    "S_NEW", "S_BAD", "S_EMPTY", "S_WHOLE", "S_COPY", "S_ASSIGN", "S_MOVE",
    "S_MOVE_ASSIGN", "S_DROP", "S_UNION", "S_INTERSECT", "S_QUERY", "S_EQ",
    "P_NEW", "P_BAD", "P_EMPTY", "P_COPY", "P_ASSIGN", "P_MOVE",
    "P_MOVE_ASSIGN", "P_XASSIGN", "P_DROP", "P_ADD", "P_SUB", "P_MUL",
    "P_IADD", "P_ISUB", "P_SCALE", "P_LSCALE", "P_DIV", "P_NEG",
    "P_ISCALE", "P_IDIV", "P_LINCOMB", "P_EVAL", "P_FRONTBACK", "P_ISZERO",
    "P_OVERLAP", "P_EQ",
    "O_APPLY", "O_BILIN", "O_LIN", "O_HOLD", "O_HELD_APPLY", "O_HELD_COPY",
    "O_DROP",
    "N_NEW", "N_BAD", "N_GEN", "N_COPY", "N_ASSIGN", "N_DROP",
    "I_INTERP", "Q_NUMINT",
    "M_SEND", "M_RECV", "X_PIN",
    "O_SH_BUILD", "O_SH_APPLY", "O_SH_BILIN", "O_SH_LIN"};

const char *op_name(int kind) {
  return kind >= 0 && kind < OP_NKINDS ? kOpNames[kind] : "?";
}
int op_from_name(const std::string &s) {
  for (int i = 0; i < OP_NKINDS; i++)
    if (s == kOpNames[i]) return i;
  return -1;
}
const char *status_name(int s) {
  static const char *n[] = {"ok", "skip", "bspline", "bad_alloc", "scalar_fault",
                            "callback_fault", "domain", "solver", "other_exc"};
  return s >= 0 && s <= ST_OTHER_EXC ? n[s] : "?";
}
static const char *kProbeNames[PR_NKINDS] = {
    "place_nested", "place_partial", "place_touch", "place_gap", "place_empty",
    "place_identical", "mixed_order", "moved_from_reuse", "post_failure_reuse",
    "self_assign", "self_iadd", "xgrid_call", "xgrid_refused",
    "eqgrid_distinct", "idx_in", "idx_edge", "idx_huge", "idx_wrap",
    "last_owner_task", "msg_sent", "msg_recv", "c03_compared", "sweep_points",
    "factor_inside", "twin_compared", "pin_taken", "pin_checked", "alias_scalar", "nonconst_operand", "xvalue_operand"};
const char *entry_name(int e) {
  static const char *n[E_N] = {"operator+", "operator-", "operator*", "operator+=", "operator-=", "linearCombination",
                               "BilinearForm", "integrate<n>", "apply(spline-factor operator)", "LinearForm(spline-factor operator)",
                               "BilinearForm(spline-factor operator)", "apply(held spline operator)", "BSplineGenerator(knots, grid)"};
  return e >= 0 && e < E_N ? n[e] : "?";
}
const char *diff_name(int d) {
  static const char *n[D_N] = {"equal_points_distinct_object", "same_object", "one_point_moved", "one_point_nudged_minimally", "extra_point_front",
                               "extra_point_back", "extra_point_inside", "other"};
  return d >= 0 && d < D_N ? n[d] : "?";
}
const char *probe_name(int p) {
  return p >= 0 && p < PR_NKINDS ? kProbeNames[p] : "?";
}

// ------------------------------------------------------------------ values
static Val dy(int64_t num, int64_t den) {
#ifdef SIM_EXACT
  return Val(num) / Val(den);
#else
  return (double)num / (double)den;
#endif
}

std::vector<Val> grid_points(const Plan &p, int variant, uint32_t j) {
  sim::Rng r(sim::mix3(p.gseed, 17, 0));
  int n = p.gn < 2 ? 2 : p.gn;
  static const int64_t steps8[] = {1, 2, 4, 8, 12};  // in eighths
  int64_t x = (int64_t)r.range(-16, 16) * 2;         // eighths
  if (p.far) x += (int64_t)8 * 100000;
  std::vector<int64_t> xs;
  for (int i = 0; i < n; i++) {
    xs.push_back(x);
    x += steps8[r.below(5)];
  }
  // all values are kept in sixteenths to allow midpoints
  for (auto &v : xs) v *= 2;
  auto mid = [&](size_t i) { return (xs[i] + xs[i + 1]) / 2; };
  switch (variant) {
    case 2: {
      size_t k = j % xs.size();
      if (k + 1 < xs.size()) xs[k] = mid(k);
      else xs[k] += 4;
      break;
    }
    case 3: xs.insert(xs.begin(), xs.front() - 8); break;
    case 4: xs.push_back(xs.back() + 8); break;
    case 5: {
      size_t k = j % (xs.size() - 1);
      xs.insert(xs.begin() + (long)k + 1, mid(k));
      break;
    }
    case 6:
      if (xs.size() >= 3) xs.pop_back();
      else xs[0] -= 4;
      break;
    case 7:
      if (xs.size() >= 3) xs.erase(xs.begin());
      else xs.back() += 4;
      break;
    default: break;
  }
  std::vector<Val> out;
  for (int64_t v : xs) out.push_back(dy(v, 16));
#ifndef SIM_EXACT
  if (variant == 9) {
    // same points, but a grid point that is zero carries the other sign bit:
    // logically equal (-0.0 == 0.0), distinguishable only by bit pattern
    for (auto &v : out)
      if (v == 0.0) v = -0.0;
  }
#endif
  if (variant == 8) {
    // one point nudged by the smallest representable amount: grids that differ
    // logically although any tolerance-based comparison would call them equal
    size_t k = j % out.size();
#ifdef SIM_EXACT
    out[k] = out[k] + Val(1) / Val(1099511627776ll);
#else
    out[k] = std::nextafter(out[k], k + 1 < out.size() ? out[k + 1] : out[k] + 1.0);
#endif
  }
  return out;
}

T scalar_choice(uint32_t sel) {
  static const int64_t num[] = {0, 1, -1, 2, 1, -3, 5, 3, -2, 1, 7, -1};
  static const int64_t den[] = {1, 1, 1, 1, 2, 4, 8, 1, 1, 4, 2, 8};
  size_t i = sel % 12;
  sim::Exempt e;
  return T::make(dy(num[i], den[i]));
}

// ------------------------------------------------------------------ hashing
uint64_t hash_points(const Grid &g) {
  sim::Exempt e;
  uint64_t h = 0x6b1d;
  try {
    auto d = g.getData();
    if (!d) return hmix(h, 0xdead);
    h = hmix(h, d->size());
    for (const auto &x : *d) h = hmix(h, x.bits());
  } catch (const BSplineException &) {
    h = hmix(h, 0xbad);
  }
  return h;
}
uint64_t hash_grid(const Grid &g) { return hash_points(g); }
uint64_t hash_support(const Support &s) {
  sim::Exempt e;
  uint64_t h = 0x5a99;
  try {
    h = hmix(h, hash_points(s.getGrid()));
    h = hmix(h, s.getStartIndex());
    h = hmix(h, s.getEndIndex());
  } catch (const BSplineException &) {
    h = hmix(h, 0xbad);
  }
  return h;
}
uint64_t hash_splinev(const SpV &v) {
  return std::visit([](const auto &s) { return hash_spline(s); }, v);
}

bool grids_logically_equal(const Grid &a, const Grid &b) {
  sim::Exempt e;
  auto da = a.getData(), db = b.getData();
  if (da == db) return true;
  if (!da || !db || da->size() != db->size()) return false;
  for (size_t i = 0; i < da->size(); i++)
    if (!((*da)[i].raw() == (*db)[i].raw())) return false;
  return true;
}

// ------------------------------------------------------------------ selection
template <class A>
static auto *pick_from(A &priv, A *shared, uint32_t arg) {
  using E = std::remove_reference_t<decltype(*priv[0])>;
  size_t n1 = priv.size(), n2 = shared ? shared->size() : 0, n = n1 + n2;
  for (size_t k = 0; k < n; k++) {
    size_t i = (arg + k) % n;
    if (i < n1) {
      if (priv[i]) return (E *)&*priv[i];
    } else if ((*shared)[i - n1]) {
      return (E *)&*(*shared)[i - n1];
    }
  }
  return (E *)nullptr;
}
template <class A>
static auto *pick_own(A &priv, uint32_t arg, int *slot) {
  using E = std::remove_reference_t<decltype(*priv[0])>;
  size_t n = priv.size();
  for (size_t k = 0; k < n; k++) {
    size_t i = (arg + k) % n;
    if (priv[i]) {
      if (slot) *slot = (int)i;
      return (E *)&*priv[i];
    }
  }
  return (E *)nullptr;
}
static Pool *shared_of(ExecCtx &c) {
  return &c.pool == &c.w.shared ? nullptr : &c.w.shared;
}
const Grid *ref_grid(ExecCtx &c, uint32_t arg) {
  Pool *sh = shared_of(c);
  return pick_from(c.pool.g, sh ? &sh->g : nullptr, arg);
}
const Support *ref_sup(ExecCtx &c, uint32_t arg) {
  Pool *sh = shared_of(c);
  return pick_from(c.pool.s, sh ? &sh->s : nullptr, arg);
}
const SpV *ref_sp(ExecCtx &c, uint32_t arg) {
  Pool *sh = shared_of(c);
  return pick_from(c.pool.p, sh ? &sh->p : nullptr, arg);
}
const Gen *ref_gen(ExecCtx &c, uint32_t arg) {
  Pool *sh = shared_of(c);
  return pick_from(c.pool.gen, sh ? &sh->gen : nullptr, arg);
}
const SpOpV *ref_oper(ExecCtx &c, uint32_t arg) {
  Pool *sh = shared_of(c);
  return pick_from(c.pool.o, sh ? &sh->o : nullptr, arg);
}
SpV *own_sp(ExecCtx &c, uint32_t arg, int *slot) { return pick_own(c.pool.p, arg, slot); }
Support *own_sup(ExecCtx &c, uint32_t arg, int *slot) { return pick_own(c.pool.s, arg, slot); }
Grid *own_grid(ExecCtx &c, uint32_t arg, int *slot) { return pick_own(c.pool.g, arg, slot); }

const SpV *ref_sp_maxorder(ExecCtx &c, uint32_t arg, size_t maxorder) {
  Pool *sh = shared_of(c);
  size_t n1 = c.pool.p.size(), n2 = sh ? sh->p.size() : 0, n = n1 + n2;
  for (size_t k = 0; k < n; k++) {
    size_t i = (arg + k) % n;
    const std::optional<SpV> &o = i < n1 ? c.pool.p[i] : sh->p[i - n1];
    if (o && o->index() <= maxorder) return &*o;
  }
  return nullptr;
}

void add_violation(ExecCtx &c, const char *prop, const char *cls,
                   const std::string &detail, const char *site) {
  Violation v;
  v.prop = prop;
  v.cls = cls;
  v.detail = detail;
  v.site = site ? site : op_name(c.op.kind);
  c.out.viol.push_back(v);
}

// ------------------------------------------------------------------ C10
static void viol(std::vector<Violation> &out, const char *cls,
                 const std::string &detail) {
  Violation v;
  v.prop = "C10";
  v.cls = cls;
  v.detail = detail;
  out.push_back(v);
}

static bool inv_grid(const Grid &g, std::vector<Violation> &out,
                     const std::string &where) {
  try {
    size_t n = g.size();
    auto d = g.getData();
    if (!d || d->size() != n || n < 2) {
      viol(out, "grid-invalid", where + ": fewer than two points");
      return false;
    }
    for (size_t i = 1; i < n; i++) {
      if (!((*d)[i - 1].raw() < (*d)[i].raw())) {
        viol(out, "grid-invalid",
             where + ": points not strictly increasing at index " +
                 std::to_string(i));
        return false;
      }
    }
    bool acc = !g.empty() && (size_t)std::distance(g.begin(), g.end()) == n &&
               g.front().bits() == (*d)[0].bits() &&
               g.back().bits() == (*d)[n - 1].bits() &&
               g.at(n - 1).bits() == (*d)[n - 1].bits();
    if (!acc) {
      viol(out, "grid-accessors-inconsistent", where);
      return false;
    }
  } catch (const BSplineException &e) {
    viol(out, "selfcheck-fired", where + ": grid accessor threw " + e.what());
    return false;
  }
  return true;
}

static bool inv_support(const Support &s, std::vector<Violation> &out,
                        const std::string &where) {
  try {
    const Grid &g = s.getGrid();
    if (!inv_grid(g, out, where + ".grid")) return false;
    size_t st = s.getStartIndex(), en = s.getEndIndex(), gs = g.size();
    bool ok = (st == 0 && en == 0) || (st < en && en <= gs);
    if (!ok) {
      viol(out, "support-window-invalid",
           where + ": window [" + std::to_string(st) + "," +
               std::to_string(en) + ") on grid of " + std::to_string(gs));
      return false;
    }
    size_t sz = en - st;
    bool acc = s.size() == sz && s.empty() == (sz == 0) &&
               s.numberOfIntervals() == (sz ? sz - 1 : 0) &&
               s.containsIntervals() == (sz > 1) &&
               (size_t)std::distance(s.begin(), s.end()) == sz;
    if (acc && sz > 0) {
      acc = s.front().bits() == g[st].bits() &&
            s.back().bits() == g[en - 1].bits() &&
            s.at(0).bits() == g[st].bits() && s[sz - 1].bits() == g[en - 1].bits();
    }
    if (!acc) {
      viol(out, "support-accessors-inconsistent", where);
      return false;
    }
  } catch (const BSplineException &e) {
    viol(out, "selfcheck-fired", where + ": support accessor threw " + e.what());
    return false;
  }
  return true;
}

template <size_t k>
void check_spline_invariants(const Sp<k> &s, std::vector<Violation> &out,
                             const char *where) {
  sim::Exempt e;
  std::string w = std::string(where) + "<" + std::to_string(k) + ">";
#ifdef SIM_SELFCHK
  // with the library's self-checks compiled in, probe validity through a
  // throwing accessor first (the noexcept ones would terminate)
  try {
    (void)s.front();
  } catch (const BSplineException &ex) {
    if (ex.getErrorCode() == bspline::exceptions::ErrorCode::INCONSISTENT_DATA) {
      viol(out, "selfcheck-fired", w + ": " + ex.what());
      return;
    }
  }
#endif
  if (!inv_support(s.getSupport(), out, w + ".support")) return;
  size_t ni = s.getSupport().numberOfIntervals();
  size_t nc = s.getCoefficients().size();
  if (ni != nc) {
    viol(out, "spline-coeff-count",
         w + ": " + std::to_string(ni) + " intervals but " +
             std::to_string(nc) + " coefficient arrays");
  }
  // C09: a coefficient that was never initialised (or already destroyed) and
  // is stored in a live spline will be used by the next evaluation; report it
  // at the operation that produced it
  for (const auto &a : s.getCoefficients())
    for (const auto &x : a)
      if (!x.tag_valid()) {
        Violation v;
        v.prop = "C09";
        v.cls = x.raw_tag() == sim::TAG_DEAD ? "destroyed-coefficient-stored" : "uninitialised-coefficient-stored";
        v.detail = w + ": a stored coefficient was never initialised";
        out.push_back(v);
        return;
      }
}
template void check_spline_invariants<0>(const Sp<0> &, std::vector<Violation> &, const char *);
template void check_spline_invariants<1>(const Sp<1> &, std::vector<Violation> &, const char *);
template void check_spline_invariants<2>(const Sp<2> &, std::vector<Violation> &, const char *);
template void check_spline_invariants<3>(const Sp<3> &, std::vector<Violation> &, const char *);
template void check_spline_invariants<4>(const Sp<4> &, std::vector<Violation> &, const char *);
template void check_spline_invariants<5>(const Sp<5> &, std::vector<Violation> &, const char *);
template void check_spline_invariants<6>(const Sp<6> &, std::vector<Violation> &, const char *);
template void check_spline_invariants<7>(const Sp<7> &, std::vector<Violation> &, const char *);
template void check_spline_invariants<8>(const Sp<8> &, std::vector<Violation> &, const char *);

void check_invariants(const Pool &pool, std::vector<Violation> &out,
                      const char *where) {
  sim::Exempt e;
  std::string w(where);
  for (int i = 0; i < NG; i++)
    if (pool.g[i]) inv_grid(*pool.g[i], out, w + ".g" + std::to_string(i));
  for (int i = 0; i < NS; i++)
    if (pool.s[i]) inv_support(*pool.s[i], out, w + ".s" + std::to_string(i));
  for (int i = 0; i < NP; i++)
    if (pool.p[i]) {
      std::string ww = w + ".p" + std::to_string(i);
      std::visit([&](const auto &s) { check_spline_invariants(s, out, ww.c_str()); },
                 *pool.p[i]);
    }
  for (int i = 0; i < NGEN; i++)
    if (pool.gen[i]) {
      try {
        Grid g = pool.gen[i]->getGrid();
        inv_grid(g, out, w + ".gen" + std::to_string(i) + ".grid");
      } catch (const BSplineException &ex) {
        viol(out, "selfcheck-fired", w + ".gen: " + ex.what());
      }
    }
}

// ------------------------------------------------------------------ C14
Snapshot snapshot(const Pool &pool, bool deep) {
  sim::Exempt e;
  Snapshot s{};
  for (int i = 0; i < NG; i++)
    s[SLOT_G0 + i] = pool.g[i] ? hmix(1, hash_grid(*pool.g[i])) : 0;
  for (int i = 0; i < NS; i++)
    s[SLOT_S0 + i] = pool.s[i] ? hmix(2, hash_support(*pool.s[i])) : 0;
  for (int i = 0; i < NP; i++) {
    if (!pool.p[i]) continue;
    uint64_t h = hmix(3, hash_splinev(*pool.p[i]));
    if (deep) {
      // a few evaluations are part of the observable state
      std::visit(
          [&](const auto &sp) {
            try {
              const auto &sup = sp.getSupport();
              if (sup.getEndIndex() <= sup.getGrid().size() &&
                  sup.getStartIndex() < sup.getEndIndex() &&
                  sp.getCoefficients().size() == sup.numberOfIntervals() &&
                  sup.size() >= 2) {
                // front, then the midpoint of the LAST interval: whatever the
                // library remembers about "the previous evaluation" is left
                // pointing at the far end when the next operation starts
                const T &x0 = sup.front();
                h = hmix(h, sp(x0).bits());
                size_t last = sup.size() - 1;
                T xm = T::make((sup[last - 1].raw() + sup[last].raw()) / Val(2));
                h = hmix(h, sp(xm).bits());
              }
            } catch (const std::exception &) {
              h = hmix(h, 0xe);
            }
          },
          *pool.p[i]);
    }
    s[SLOT_P0 + i] = h;
  }
  for (int i = 0; i < NGEN; i++) {
    if (!pool.gen[i]) continue;
    uint64_t h = 4;
    try {
      Grid g = pool.gen[i]->getGrid();
      h = hmix(h, hash_grid(g));
      if (deep) {
        auto v = pool.gen[i]->template generateBSplines<0>();
        h = hmix(h, v.size());
        for (const auto &sp : v) h = hmix(h, hash_spline(sp));
      }
    } catch (const std::exception &) {
      h = hmix(h, 0xe);
    }
    s[SLOT_GEN0 + i] = h;
  }
  for (int i = 0; i < NO; i++) {
    if (!pool.o[i]) continue;
    uint64_t h = 5;
    if (deep && pool.og[i]) {
      try {
        const Grid &g = *pool.og[i];
        size_t n = g.size();
        std::array<T, 1> one{T::make(Val(1))};
        std::visit(
            [&](const auto &op) {
              for (size_t k = 0; k + 1 < n; k++) {
                auto r = op.transform(one, g, k);
                for (const auto &x : r) h = hmix(h, x.bits());
              }
            },
            *pool.o[i]);
      } catch (const std::exception &) {
        h = hmix(h, 0xe);
      }
    }
    s[SLOT_O0 + i] = h;
  }
  return s;
}

void check_history_independence(const Pool &pool, std::vector<Violation> &out, const char *where) {
  sim::Exempt e;
  for (int i = 0; i < NP; i++) {
    if (!pool.p[i]) continue;
    bool bad = false;
    std::visit(
        [&](const auto &sp) {
          using S = std::decay_t<decltype(sp)>;
          try {
            const auto &sup = sp.getSupport();
            size_t n = sup.getEndIndex() - sup.getStartIndex();
            if (sup.getEndIndex() > sup.getGrid().size() || n < 2 || sp.getCoefficients().size() != n - 1) return;
            // evaluation points: every grid point of the support and every midpoint
            std::vector<T> xs;
            for (size_t k = 0; k < n; k++) {
              xs.push_back(T::make(sup[k].raw()));
              if (k + 1 < n) xs.push_back(T::make((sup[k].raw() + sup[k + 1].raw()) / Val(2)));
            }
            // the twin lives on a freshly built grid (new storage, equal points):
            // state attached to the grid object or its storage is pristine too
            std::vector<T> pts;
            for (const auto &gp : sup.getGrid()) pts.push_back(T::make(gp.raw()));
            Grid fresh(std::move(pts));
            S twin(Support(fresh, sup.getStartIndex(), sup.getEndIndex()), sp.getCoefficients());
            std::vector<uint64_t> ref(xs.size());
            for (size_t k = 0; k < xs.size(); k++) ref[k] = twin(xs[k]).bits();  // ascending, pristine
            for (size_t k = xs.size(); k-- > 0;)                                   // descending, with history
              if (sp(xs[k]).bits() != ref[k]) bad = true;
            for (size_t k = 0; k < xs.size(); k += 2)                              // grid points only, ascending
              if (sp(xs[k]).bits() != ref[k]) bad = true;
          } catch (const std::exception &) {
          }
        },
        *pool.p[i]);
    if (bad) {
      Violation v;
      v.prop = "C14";
      v.cls = "evaluation-depends-on-history";
      v.detail = std::string(where) + ": p" + std::to_string(i) +
                 " evaluates differently from a pristine spline with the same window and coefficients";
      out.push_back(v);
      return;
    }
  }
}

static std::string slot_name(int slot) {
  if (slot < SLOT_S0) return "g" + std::to_string(slot - SLOT_G0);
  if (slot < SLOT_P0) return "s" + std::to_string(slot - SLOT_S0);
  if (slot < SLOT_GEN0) return "p" + std::to_string(slot - SLOT_P0);
  if (slot < SLOT_O0) return "gen" + std::to_string(slot - SLOT_GEN0);
  return "o" + std::to_string(slot - SLOT_O0);
}

void compare_snapshots(const Snapshot &before, const Snapshot &after,
                       const Outcome &out, std::vector<Violation> &vl,
                       const char *where) {
  for (int i = 0; i < NSLOTS; i++) {
    if (before[i] == after[i]) continue;
    bool is_target = (i == out.target || i == out.target2);
    if (is_target && out.status == ST_OK) continue;
    if (i == out.pilfer1 || i == out.pilfer2) continue;  // handed over as an xvalue
    Violation v;
    v.prop = "C14";
    if (is_target) {
      v.cls = "target-changed-after-throw";
      v.detail = std::string(where) + ": " + slot_name(i) +
                 " changed although the call threw " + status_name(out.status);
    } else {
      v.cls = "bystander-changed";
      v.detail = std::string(where) + ": " + slot_name(i) +
                 " changed but is not the target of the operation (status " +
                 status_name(out.status) + ")";
    }
    vl.push_back(v);
  }
}

// ------------------------------------------------------------------ C03 model
Fn fn_of_v(const SpV &v) {
  return std::visit([](const auto &s) { return fn_of(s); }, v);
}
static void trim(Poly &p) {
  while (!p.empty() && p.back() == Val(0)) p.pop_back();
}
Fn fn_add(const Fn &a, const Fn &b) {
  sim::Exempt e;
  Fn r = a;
  for (const auto &kv : b) {
    Poly &p = r[kv.first];
    if (p.size() < kv.second.size()) p.resize(kv.second.size(), Val(0));
    for (size_t i = 0; i < kv.second.size(); i++) p[i] = p[i] + kv.second[i];
  }
  return r;
}
Fn fn_scale(const Fn &a, const Val &c) {
  sim::Exempt e;
  Fn r = a;
  for (auto &kv : r)
    for (auto &x : kv.second) x = x * c;
  return r;
}
Fn fn_mul(const Fn &a, const Fn &b) {
  sim::Exempt e;
  Fn r;
  for (const auto &kv : a) {
    auto it = b.find(kv.first);
    if (it == b.end()) continue;
    const Poly &p = kv.second, &q = it->second;
    if (p.empty() || q.empty()) continue;
    Poly out(p.size() + q.size() - 1, Val(0));
    for (size_t i = 0; i < p.size(); i++)
      for (size_t j = 0; j < q.size(); j++) out[i + j] = out[i + j] + p[i] * q[j];
    r[kv.first] = out;
  }
  return r;
}
bool fn_equal(const Fn &a, const Fn &b) {
  sim::Exempt e;
  auto norm = [](const Fn &f) {
    Fn r;
    for (const auto &kv : f) {
      Poly p = kv.second;
      trim(p);
      if (!p.empty()) r[kv.first] = p;
    }
    return r;
  };
  Fn x = norm(a), y = norm(b);
  if (x.size() != y.size()) return false;
  auto i = x.begin();
  auto j = y.begin();
  for (; i != x.end(); ++i, ++j) {
    if (i->first != j->first || i->second.size() != j->second.size()) return false;
    for (size_t k = 0; k < i->second.size(); k++)
      if (!(i->second[k] == j->second[k])) return false;
  }
  return true;
}
std::string fn_str(const Fn &a) {
  sim::Exempt e;
  std::ostringstream o;
  for (const auto &kv : a) {
    o << "[" << kv.first << ":";
    for (const auto &x : kv.second) o << " " << x;
    o << "]";
  }
  return o.str();
}

}  // namespace simw
