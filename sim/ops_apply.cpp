// Operator application (expression recipes, held spline operators).
#include "recipes.h"

namespace simw {

template <class V, class X>
static void factor_probes(const V &v, const X &x) {
  sim::Exempt e;
  size_t ve = v.getSupport().getEndIndex(), vs = v.getSupport().getStartIndex();
  size_t xs = x.getSupport().getStartIndex(), xe = x.getSupport().getEndIndex();
  // the factor's last grid point lies strictly inside the operand's support
  if (ve > vs && xe > xs + 1 && ve - 1 >= xs && ve < xe) probe(PR_FACTOR_INSIDE);
}

static const SpOpV *ref_oper_ex(ExecCtx &c, uint32_t arg, const Grid **og, bool *dirty = nullptr, int *src = nullptr) {
  Pool *sh = &c.pool == &c.w.shared ? nullptr : &c.w.shared;
  size_t n1 = c.pool.o.size(), n = n1 + (sh ? sh->o.size() : 0);
  for (size_t k = 0; k < n; k++) {
    size_t i = (arg + k) % n;
    Pool &p = i < n1 ? c.pool : *sh;
    size_t j = i < n1 ? i : i - n1;
    if (p.o[j]) {
      *og = p.og[j] ? &*p.og[j] : nullptr;
      if (dirty) *dirty = p.osrc_dirty[j];
      if (src) *src = (&p == &c.pool) ? p.osrc[j] : -1;
      return &*p.o[j];
    }
  }
  return nullptr;
}

bool exec_apply(ExecCtx &c) {
  const Op &op = c.op;
  Pool &P = c.pool;
  Outcome &out = c.out;
  switch (op.kind) {
    case OP_O_APPLY: {
      const SpV *xs = ref_sp(c, op.c);
      if (!xs) return true;
      int dst = op.a % NP;
      int r = op.b % N_RECIPES;
      if (!recipe_has_factor(r)) {
        T s = scalar_choice(op.d);
        std::visit(
            [&](const auto &x) {
              const int cx = value_cat(c, xs, 0, true);
              libcall(out, [&] {
                with_plain_recipe(r, s, [&](auto &&o) {
                  as_cat(cx, x, [&](auto &&xx) {
                    auto res = o * SIM_FWD(xx);
                    store_result(c, dst, std::move(res));
                  });
                });
              });
            },
            *xs);
        return true;
      }
      const SpV *vs = ref_sp_maxorder(c, op.d, MAXFACT);
      if (!vs) return true;
      const T fs = scalar_choice(1 + (op.a / NP) % 11);  // non-zero
      std::visit(
          [&](const auto &x, const auto &v) {
            using V = std::decay_t<decltype(v)>;
            if constexpr (V::spline_order <= MAXFACT) {
              bool same = grids_logically_equal(x.getSupport().getGrid(), v.getSupport().getGrid());
              bool distinct = same && !same_grid_object(x, v);
              bool has_int;
              {
                sim::Exempt e;
                has_int = x.getSupport().numberOfIntervals() > 0;
              }
              if (same) factor_probes(v, x);
              if (has_int) c08_note(E_APPLY_FACTOR, x.getSupport().getGrid(), v.getSupport().getGrid());
              bool twin_differs = false;
              if (distinct) {
                // C08 on pristine copies: factor on its own grid object vs. factor
                // rebuilt on the operand's grid object
                sim::Exempt e;
                try {
                  using X = std::decay_t<decltype(x)>;
                  const Grid &gx = x.getSupport().getGrid();
                  X xf(Support(gx, x.getSupport().getStartIndex(), x.getSupport().getEndIndex()), x.getCoefficients());
                  V vo(Support(v.getSupport().getGrid(), v.getSupport().getStartIndex(), v.getSupport().getEndIndex()),
                       v.getCoefficients());
                  V vs2(Support(gx, v.getSupport().getStartIndex(), v.getSupport().getEndIndex()), v.getCoefficients());
                  uint64_t h1 = 0, h2 = 0;
                  with_factor_recipe(r, vo, fs, [&](auto &&o) { h1 = hash_spline_wc(o * xf); });
                  with_factor_recipe(r, vs2, fs, [&](auto &&o) { h2 = hash_spline_wc(o * xf); });
                  probe(PR_TWIN_COMPARED);
                  twin_differs = h1 != h2;
                } catch (const std::exception &) {
                }
              }
              if (has_int && !same) sim::g_cur->note = 1;
              const int cx = value_cat(c, xs, 0, same);
              libcall(out, [&] {
                with_factor_recipe(r, v, fs, [&](auto &&o) {
                  as_cat(cx, x, [&](auto &&xx) {
                    auto res = o * SIM_FWD(xx);
                    store_result(c, dst, std::move(res));
                  });
                });
              });
              if (has_int) c08_check(c, !same, true, distinct, "SplineOperator::transform");
              if (twin_differs)
                add_violation(c, "C08", "equal-grid-result-differs",
                              "operator with spline factor on a distinct equal grid", "SplineOperator::transform");
            }
          },
          *xs, *vs);
      return true;
    }
    case OP_O_HOLD: {
      const SpV *vs = ref_sp_maxorder(c, op.b, MAXFACT);
      if (!vs) return true;
      int dst = op.a % NO;
      int srcslot = -1;
      for (int i = 0; i < NP; i++)
        if (P.p[i] && &*P.p[i] == vs) srcslot = SLOT_P0 + i;
      std::visit(
          [&](const auto &v) {
            using V = std::decay_t<decltype(v)>;
            if constexpr (V::spline_order <= MAXFACT) {
              std::optional<SpOp<V::spline_order>> tmp;
              // the operator takes its spline by value: from a const or non-const
              // lvalue (copied) or from an xvalue (the caller gives the spline up)
              std::optional<Grid> g0;
              {
                sim::Exempt e;
                g0.emplace(v.getSupport().getGrid());
              }
              const int cv = value_cat(c, vs, 0, true);
              libcall(out, [&] { as_cat(cv, v, [&](auto &&vv) { tmp.emplace(SIM_FWD(vv)); }); });
              if (tmp) {
                sim::Exempt e;
                P.o[dst].emplace(std::in_place_type<SpOp<V::spline_order>>, std::move(*tmp));
                P.og[dst].emplace(*g0);
                P.osrc[dst] = srcslot;
                P.osrc_dirty[dst] = false;
                out.target = SLOT_O0 + dst;
              }
              {
                sim::Exempt e;
                g0.reset();
              }
              sim::LibRegion lr;
              tmp.reset();
            }
          },
          *vs);
      return true;
    }
    case OP_O_HELD_COPY: {
      const Grid *og = nullptr;
      bool sdirty = false;
      int ssrc = -1;
      const SpOpV *src = ref_oper_ex(c, op.b, &og, &sdirty, &ssrc);
      if (!src) return true;
      int dst = op.a % NO;
      std::optional<SpOpV> tmp;
      libcall(out, [&] { tmp.emplace(*src); });
      if (tmp) {
        sim::Exempt e;
        std::optional<Grid> g2;
        if (og) g2.emplace(*og);
        P.o[dst].emplace(std::move(*tmp));
        if (g2) P.og[dst].emplace(*g2); else P.og[dst].reset();
        P.osrc[dst] = ssrc;
        P.osrc_dirty[dst] = sdirty;
        out.target = SLOT_O0 + dst;
      }
      sim::LibRegion lr;
      tmp.reset();
      return true;
    }
    case OP_O_DROP: {
      int slot = op.a % NO;
      if (!P.o[slot]) return true;
      out.target = SLOT_O0 + slot;
      libcall(out, [&] {
        P.o[slot].reset();
        P.og[slot].reset();
      });
      return true;
    }
    case OP_O_HELD_APPLY: {
      const Grid *og = nullptr;
      bool odirty = false;
      const SpOpV *o = ref_oper_ex(c, op.b, &og, &odirty);
      const SpV *xs = ref_sp(c, op.c);
      if (!o || !xs) return true;
      if (odirty) og = nullptr;  // source modified since the hold: no C08 expectation
      int dst = op.a % NP;
      std::visit(
          [&](const auto &oper, const auto &x) {
            bool same = og ? grids_logically_equal(x.getSupport().getGrid(), *og) : true;
            bool has_int;
            {
              sim::Exempt e;
              has_int = x.getSupport().numberOfIntervals() > 0;
            }
            if (has_int && og) c08_note(E_HELD_APPLY, x.getSupport().getGrid(), *og);
            if (has_int && og && !same) sim::g_cur->note = 1;
            const int cx = value_cat(c, xs, 0, same && og);
            libcall(out, [&] {
              as_cat(cx, x, [&](auto &&xx) {
                auto res = oper * SIM_FWD(xx);
                store_result(c, dst, std::move(res));
              });
            });
            if (has_int && og) c08_check(c, !same, true, false, "SplineOperator::transform");
          },
          *o, *xs);
      return true;
    }
    default:
      return false;
  }
}

}  // namespace simw
