// Grid, support and mailbox operations; dispatcher.
#include "ops_util.h"

#include <limits>

namespace simw {

using bspline::exceptions::BSplineException;
using bspline::exceptions::ErrorCode;

void exec_op(ExecCtx &c) {
  c.out = Outcome();
  c.out.obs = hmix(0x0b5, (uint64_t)c.op.kind);
  bool done = false;
  try {
    done = exec_basic(c) || exec_spline(c) || exec_arith(c) || exec_apply(c) ||
           exec_forms(c) || exec_gen(c) || exec_interp(c) || exec_numint(c) || exec_shared(c);
  } catch (const std::exception &) {
    // an exception out of the harness's own preparation code (e.g. building a
    // twin of an object some other oracle has already reported as invalid):
    // the operation counts as skipped, it is not evidence of anything
    done = false;
    c.out.viol.clear();
  }
  if (!done) c.out.status = ST_SKIP;
  c.out.obs = hmix(c.out.obs, ((uint64_t)c.out.status << 8) ^ (uint64_t)(c.out.code + 1));
}

static std::vector<T> make_points(const Plan &p, int variant, uint32_t j) {
  sim::Exempt e;
  std::vector<Val> v = grid_points(p, variant, j);
  std::vector<T> out;
  out.reserve(v.size());
  for (auto &x : v) out.push_back(T::make(x));
  return out;
}

// boundary-biased index classes (DESIGN §2.4)
static size_t biased_index(uint32_t cls, uint32_t k, size_t n, size_t start) {
  switch (cls % 5) {
    case 0: probe(PR_IDX_IN); return n ? k % n : 0;
    case 1: probe(PR_IDX_EDGE); return n - 1 + (k % 3);  // n-1, n, n+1
    case 2: probe(PR_IDX_HUGE); return SIZE_MAX - (k % 4);
    case 3: probe(PR_IDX_WRAP); return SIZE_MAX - start + 1 + (k % (n + 2));  // start+index wraps
    default: probe(PR_IDX_EDGE); return n + (k % 4);
  }
}

bool exec_basic(ExecCtx &c) {
  const Op &op = c.op;
  Pool &P = c.pool;
  Outcome &out = c.out;
  switch (op.kind) {
    case OP_G_NEW: {
      int dst = op.a % NG;
      int variant = op.b % N_GRID_VARIANTS;
      if (variant == 0) {
        // share the storage of an existing base grid when there is one
        const Grid *base = nullptr;
        if (c.w.shared.g[0]) base = &*c.w.shared.g[0];
        if (base && &P != &c.w.shared) {
          std::optional<Grid> tmp;
          libcall(out, [&] { tmp.emplace(*base); });
          if (tmp) {
            sim::Exempt e;
            P.g[dst].emplace(*tmp);
            out.target = SLOT_G0 + dst;
          }
          out.obs = hmix(out.obs, tmp ? hash_grid(*tmp) : 0);
          sim::LibRegion lr;
          tmp.reset();
          return true;
        }
      }
      std::vector<T> pts = make_points(*c.w.plan, variant, op.c);
      std::optional<Grid> tmp;
      uint32_t route = op.d % 3;
      libcall(out, [&] {
        if (route == 0) tmp.emplace(pts);                      // from vector
        else if (route == 1) tmp.emplace(pts.begin(), pts.end());  // iterators
        else tmp.emplace(std::make_shared<const std::vector<T>>(pts));
      });
      if (tmp) {
        sim::Exempt e;
        P.g[dst].emplace(*tmp);
        out.target = SLOT_G0 + dst;
        out.obs = hmix(out.obs, hash_grid(*tmp));
      }
      {
        sim::LibRegion lr;
        tmp.reset();
        pts.clear();
        pts.shrink_to_fit();
      }
      return true;
    }
    case OP_G_BAD: {
      // malformed point sequences: the call must fail; whatever survives is
      // judged by the invariants (C10), the decision itself is C11 (n/a)
      std::vector<T> pts = make_points(*c.w.plan, 1, 0);
      {
        sim::Exempt e;
        uint32_t defect = op.a % 6;
        size_t n = pts.size(), pos = op.b % n;
        switch (defect) {
          case 0: pts.clear(); break;
          case 1: pts.resize(1); break;
          case 2: if (pos + 1 < n) std::swap(pts[pos], pts[pos + 1]); else std::swap(pts[0], pts[1]); break;
          case 3: pts[pos ? pos : 1] = pts[pos ? pos - 1 : 0]; break;  // duplicate
#ifndef SIM_EXACT
          case 4: pts[pos] = T::make(std::numeric_limits<double>::quiet_NaN()); break;
          case 5: pts[pos] = T::make(pos + 1 < n ? std::numeric_limits<double>::infinity()
                                                   : -std::numeric_limits<double>::infinity()); break;
#else
          default: std::reverse(pts.begin(), pts.end()); break;
#endif
        }
      }
      int dst = op.c % NG;
      std::optional<Grid> tmp;
      libcall(out, [&] { tmp.emplace(pts); });
      if (tmp) {  // accepted: keep it, the invariants will judge it
        sim::Exempt e;
        P.g[dst].emplace(*tmp);
        out.target = SLOT_G0 + dst;
      }
      sim::LibRegion lr;
      tmp.reset();
      pts.clear();
      pts.shrink_to_fit();
      return true;
    }
    case OP_G_COPY: {
      const Grid *src = ref_grid(c, op.b);
      if (!src) return true;
      int dst = op.a % NG;
      std::optional<Grid> tmp;
      const int cs = value_cat(c, src, 0, false);
      libcall(out, [&] { as_lv(cs, *src, [&](auto &&ss) { tmp.emplace(SIM_FWD(ss)); }); });
      if (tmp) {
        sim::Exempt e;
        out.obs = hmix(out.obs, hash_grid(*tmp));
        P.g[dst].emplace(*tmp);
        out.target = SLOT_G0 + dst;
      }
      sim::LibRegion lr;
      tmp.reset();
      return true;
    }
    case OP_G_ASSIGN: {
      int slot = -1;
      Grid *dst = own_grid(c, op.a, &slot);
      const Grid *src = ref_grid(c, op.b);
      if (!dst || !src) return true;
      out.target = SLOT_G0 + slot;
      if (dst == src) probe(PR_SELF_ASSIGN);
      libcall(out, [&] { *dst = *src; });
      return true;
    }
    case OP_G_DROP: {
      int slot = op.a % NG;
      if (!P.g[slot]) return true;
      out.target = SLOT_G0 + slot;
      if (c.task >= 0) {
        sim::Exempt e;
        if (P.g[slot]->getData().use_count() == 2) probe(PR_LAST_OWNER_TASK);
      }
      libcall(out, [&] { P.g[slot].reset(); });
      return true;
    }
    case OP_G_QUERY: {
      const Grid *g = ref_grid(c, op.a);
      if (!g) return true;
      size_t n;
      std::vector<uint64_t> pts;
      {
        sim::Exempt e;
        n = g->getData()->size();
        for (const auto &x : *g->getData()) pts.push_back(x.bits());
      }
      size_t i = biased_index(op.b, op.c, n, 0);
      uint64_t got = 0;
      libcall(out, [&] {
        const T &r = g->at(i);
        sim::Exempt e;
        got = r.bits();
      });
      out.obs = hmix(out.obs, got);
      if (i >= n) {
        if (out.status == ST_OK)
          add_violation(c, "C09", "checked-accessor-no-throw",
                        "Grid::at(" + std::to_string(i) + ") on " + std::to_string(n) +
                            " points did not throw (status " + status_name(out.status) + ")",
                        "Grid::at");
      } else if (out.status == ST_OK && got != pts[i]) {
        add_violation(c, "C09", "checked-accessor-wrong-element",
                      "Grid::at(" + std::to_string(i) + ") returned a different element", "Grid::at");
      } else if (out.status == ST_BSPLINE || out.status == ST_OTHER_EXC) {
        add_violation(c, "C09", "checked-accessor-spurious-throw",
                      "Grid::at(" + std::to_string(i) + ") threw for a valid index", "Grid::at");
      }
      if (out.status == ST_OK || out.status == ST_BSPLINE) {
        // further read-only accessors (observations only)
        int st2 = out.status;
        Outcome o2;
        uint64_t h = 0;
        libcall(o2, [&] {
          const T &f = g->front();
          const T &b = g->back();
          bool em = g->empty();
          size_t sz = g->size();
          size_t idx = g->findElement(f);
          sim::Exempt e;
          h = hmix(hmix(hmix(f.bits(), b.bits()), em), sz * 31 + idx);
        });
        out.obs = hmix(out.obs, h);
        out.status = st2;
      }
      return true;
    }
    case OP_G_EQ: {
      const Grid *a = ref_grid(c, op.a), *b = ref_grid(c, op.b);
      if (!a || !b) return true;
      bool eq = false, ne = false;
      libcall(out, [&] {
        eq = (*a == *b);
        ne = (*a != *b);
      });
      out.obs = hmix(out.obs, eq * 2 + ne);
      return true;
    }

    // ------------------------------------------------------------ supports
    case OP_S_NEW: {
      const Grid *g = ref_grid(c, op.b);
      if (!g) return true;
      size_t n;
      {
        sim::Exempt e;
        n = g->getData()->size();
      }
      size_t st = op.c % n;
      size_t en = st + 1 + (op.d % (n - st));
      int dst = op.a % NS;
      std::optional<Support> tmp;
      libcall(out, [&] { tmp.emplace(*g, st, en); });
      if (tmp) {
        sim::Exempt e;
        out.obs = hmix(out.obs, hash_support(*tmp));
        P.s[dst].emplace(*tmp);
        out.target = SLOT_S0 + dst;
      }
      sim::LibRegion lr;
      tmp.reset();
      return true;
    }
    case OP_S_BAD: {
      const Grid *g = ref_grid(c, op.a);
      if (!g) return true;
      size_t n;
      {
        sim::Exempt e;
        n = g->getData()->size();
      }
      size_t st = 0, en = 0;
      switch (op.b % 5) {
        case 0: st = 1 + op.c % n; en = op.d % st; break;            // start > end
        case 1: st = op.c % n; en = n + 1 + op.d % 3; break;        // beyond the grid
        case 2: st = 1 + op.c % n; en = st; break;                   // empty window not at 0
        case 3: st = SIZE_MAX - op.c % 3; en = SIZE_MAX; break;      // huge
        default: st = n + op.c % 3; en = st + 1 + op.d % 2; break;   // fully outside
      }
      int dst = op.d % NS;
      std::optional<Support> tmp;
      libcall(out, [&] { tmp.emplace(*g, st, en); });
      if (tmp) {  // accepted: keep it for the invariants to judge
        sim::Exempt e;
        P.s[dst].emplace(*tmp);
        out.target = SLOT_S0 + dst;
      }
      sim::LibRegion lr;
      tmp.reset();
      return true;
    }
    case OP_S_EMPTY:
    case OP_S_WHOLE: {
      const Grid *g = ref_grid(c, op.b);
      if (!g) return true;
      int dst = op.a % NS;
      std::optional<Support> tmp;
      libcall(out, [&] {
        if (op.kind == OP_S_EMPTY) tmp.emplace(Support::createEmpty(*g));
        else tmp.emplace(Support::createWholeGrid(*g));
      });
      if (tmp) {
        sim::Exempt e;
        out.obs = hmix(out.obs, hash_support(*tmp));
        P.s[dst].emplace(*tmp);
        out.target = SLOT_S0 + dst;
      }
      sim::LibRegion lr;
      tmp.reset();
      return true;
    }
    case OP_S_COPY: {
      const Support *src = ref_sup(c, op.b);
      if (!src) return true;
      int dst = op.a % NS;
      std::optional<Support> tmp;
      const int cs = value_cat(c, src, 0, false);
      libcall(out, [&] { as_lv(cs, *src, [&](auto &&ss) { tmp.emplace(SIM_FWD(ss)); }); });
      if (tmp) {
        sim::Exempt e;
        out.obs = hmix(out.obs, hash_support(*tmp));
        P.s[dst].emplace(*tmp);
        out.target = SLOT_S0 + dst;
      }
      sim::LibRegion lr;
      tmp.reset();
      return true;
    }
    case OP_S_ASSIGN: {
      int slot = -1;
      Support *dst = own_sup(c, op.a, &slot);
      const Support *src = ref_sup(c, op.b);
      if (!dst || !src) return true;
      out.target = SLOT_S0 + slot;
      if (dst == src) probe(PR_SELF_ASSIGN);
      const int cs = dst == src ? (int)CAT_CONST : value_cat(c, src, 0, false);
      libcall(out, [&] { as_lv(cs, *src, [&](auto &&ss) { *dst = SIM_FWD(ss); }); });
      return true;
    }
    case OP_S_MOVE:
    case OP_S_MOVE_ASSIGN: {
      int sslot = -1, dslot = -1;
      Support *src = own_sup(c, op.b, &sslot);
      if (!src) return true;
      uint64_t gh = hash_points(src->getGrid());
      if (op.kind == OP_S_MOVE) {
        dslot = op.a % NS;
        std::optional<Support> tmp;
        libcall(out, [&] { tmp.emplace(std::move(*src)); });
        out.target2 = SLOT_S0 + sslot;
        // the moved-from source is judged before it may be overwritten
        if (out.status == ST_OK) {
          sim::Exempt e;
          // "a valid interval-free object on the same grid": the window may be
          // empty or point-like, the invariants are judged by the generic oracle
          bool ok = !src->containsIntervals();
          if (!ok)
            add_violation(c, "C10", "moved-from-not-interval-free",
                          "moved-from support keeps window [" + std::to_string(src->getStartIndex()) +
                              "," + std::to_string(src->getEndIndex()) + ")", "Support(Support&&)");
          else if (hash_points(src->getGrid()) != gh)
            add_violation(c, "C10", "moved-from-grid-changed", "support", "Support(Support&&)");
        }
        if (tmp) {
          sim::Exempt e;
          out.obs = hmix(out.obs, hash_support(*tmp));
          P.s[dslot].emplace(*tmp);
          out.target = SLOT_S0 + dslot;
        }
        sim::LibRegion lr;
        tmp.reset();
      } else {
        Support *dst = own_sup(c, op.a, &dslot);
        if (!dst) return true;
        out.target = SLOT_S0 + dslot;
        out.target2 = SLOT_S0 + sslot;
        bool self = dst == src;
        libcall(out, [&] { *dst = std::move(*src); });
        if (out.status == ST_OK && !self) {
          sim::Exempt e;
          // "a valid interval-free object on the same grid": the window may be
          // empty or point-like, the invariants are judged by the generic oracle
          bool ok = !src->containsIntervals();
          if (!ok)
            add_violation(c, "C10", "moved-from-not-interval-free",
                          "moved-from support keeps window [" + std::to_string(src->getStartIndex()) +
                              "," + std::to_string(src->getEndIndex()) + ")",
                          "Support::operator=(Support&&)");
          else if (hash_points(src->getGrid()) != gh)
            add_violation(c, "C10", "moved-from-grid-changed", "support",
                          "Support::operator=(Support&&)");
        }
      }
      return true;
    }
    case OP_S_DROP: {
      int slot = op.a % NS;
      if (!P.s[slot]) return true;
      out.target = SLOT_S0 + slot;
      if (c.task >= 0) {
        sim::Exempt e;
        if (P.s[slot]->getGrid().getData().use_count() == 2) probe(PR_LAST_OWNER_TASK);
      }
      libcall(out, [&] { P.s[slot].reset(); });
      return true;
    }
    case OP_S_UNION:
    case OP_S_INTERSECT: {
      const Support *a = ref_sup(c, op.b), *b = ref_sup(c, op.c);
      if (!a || !b) return true;
      int dst = op.a % NS;
      std::optional<Support> tmp;
      const int ca = value_cat(c, a, 0, false), cb = value_cat(c, b, 1, false);
      libcall(out, [&] {
        as_lv(ca, *a, [&](auto &&aa) {
          as_lv(cb, *b, [&](auto &&bb) {
            if (op.kind == OP_S_UNION) tmp.emplace(aa.calcUnion(SIM_FWD(bb)));
            else tmp.emplace(aa.calcIntersection(SIM_FWD(bb)));
          });
        });
      });
      if (tmp) {
        sim::Exempt e;
        out.obs = hmix(out.obs, hash_support(*tmp));
        P.s[dst].emplace(*tmp);
        out.target = SLOT_S0 + dst;
      }
      sim::LibRegion lr;
      tmp.reset();
      return true;
    }
    case OP_S_QUERY: {
      const Support *s = ref_sup(c, op.a);
      if (!s) return true;
      size_t n, st, gsz;
      std::vector<uint64_t> pts;
      {
        sim::Exempt e;
        n = s->getEndIndex() - s->getStartIndex();
        st = s->getStartIndex();
        gsz = s->getGrid().getData()->size();
        if (s->getEndIndex() <= gsz)
          for (size_t i = st; i < s->getEndIndex(); i++) pts.push_back((*s->getGrid().getData())[i].bits());
      }
      size_t i = biased_index(op.c, op.d, n ? n : 1, st);
      uint32_t which = op.b % 4;
      uint64_t got = 0;
      const char *site = "Support::at";
      if (which == 0) {
        libcall(out, [&] {
          const T &r = s->at(i);
          sim::Exempt e;
          got = r.bits();
        });
      } else if (which == 1) {
        site = "Support::absoluteFromRelative";
        libcall(out, [&] { got = s->absoluteFromRelative(i); });
      } else if (which == 2) {
        site = "Support::front/back";
        libcall(out, [&] {
          const T &f = s->front();
          const T &b = s->back();
          sim::Exempt e;
          got = hmix(f.bits(), b.bits());
        });
      } else {
        libcall(out, [&] {
          auto r1 = s->relativeFromAbsolute(i);
          auto r2 = s->intervalIndexFromAbsolute(i);
          got = hmix(r1 ? *r1 + 1 : 0, r2 ? *r2 + 1 : 0);
          got = hmix(got, s->size() * 64 + s->numberOfIntervals() * 4 + s->empty() * 2 + s->containsIntervals());
        });
        site = nullptr;
      }
      out.obs = hmix(out.obs, got);
      bool injected = fault_fired() && is_injected_status(out.status);
      if (which == 0 || which == 1) {
        if (i >= n) {
          if (out.status == ST_OK)
            add_violation(c, "C09", "checked-accessor-no-throw",
                          std::string(site) + "(" + std::to_string(i) + ") on a window of " +
                              std::to_string(n) + " points starting at " + std::to_string(st) +
                              " did not throw",
                          site);
        } else if (out.status == ST_BSPLINE) {
          add_violation(c, "C09", "checked-accessor-spurious-throw",
                        std::string(site) + "(" + std::to_string(i) + ") threw for a valid index", site);
        } else if (out.status == ST_OK && which == 0 && i < pts.size() && got != pts[i]) {
          add_violation(c, "C09", "checked-accessor-wrong-element", std::string(site), site);
        } else if (out.status == ST_OK && which == 1 && got != st + i) {
          add_violation(c, "C09", "checked-accessor-wrong-element", std::string(site), site);
        }
      } else if (which == 2) {
        if (n == 0 && out.status == ST_OK)
          add_violation(c, "C09", "checked-accessor-no-throw",
                        "front()/back() of an empty support did not throw", site);
        if (n > 0 && out.status == ST_BSPLINE)
          add_violation(c, "C09", "checked-accessor-spurious-throw",
                        "front()/back() of a non-empty support threw", site);
      }
      return true;
    }
    case OP_S_EQ: {
      const Support *a = ref_sup(c, op.a), *b = ref_sup(c, op.b);
      if (!a || !b) return true;
      bool eq = false, ne = false, sg = false;
      libcall(out, [&] {
        eq = (*a == *b);
        ne = (*a != *b);
        sg = a->hasSameGrid(*b);
      });
      out.obs = hmix(out.obs, eq * 4 + ne * 2 + sg);
      return true;
    }

    // ------------------------------------------------------------ mailbox
    case OP_M_SEND: {
      if (!c.allow_mail || c.task < 0) return true;
      auto it = c.w.mail.find(op.a);
      if (it == c.w.mail.end()) return true;
      Message &m = it->second;
      if (sim::flag_get(&m.ready)) return true;  // duplicate SEND of one message id
      const SpV *src = ref_sp(c, op.b);
      std::optional<SpV> tmp;
      if (src) libcall(out, [&] { tmp.emplace(*src); });
      if (tmp) {
        sim::Exempt e;
        out.obs = hmix(out.obs, hash_splinev(*tmp));
        m.payload.emplace(std::move(*tmp));
        probe(PR_MSG_SENT);
      }
      // the message is always delivered (possibly empty), so that a receiver
      // never waits for a send that failed or had nothing to send
      sim::hb_release(&m);
      sim::flag_set(&m.ready);
      sim::wake_all();
      sim::yield_point(sim::Y_MAILBOX);
      return true;
    }
    case OP_M_RECV: {
      if (!c.allow_mail || c.task < 0) return true;
      auto it = c.w.mail.find(op.a);
      if (it == c.w.mail.end()) return true;
      Message &m = it->second;
      sim::yield_point(sim::Y_MAILBOX);
      sim::block_until(&m.ready);
      if (!sim::flag_get(&m.ready)) return true;  // world stopped
      sim::hb_acquire(&m);
      if (!m.payload) return true;  // already received (duplicate RECV)
      int dst = op.b % NP;
      {
        sim::Exempt e;
        out.obs = hmix(out.obs, hash_splinev(*m.payload));
        P.p[dst].emplace(std::move(*m.payload));
        m.payload.reset();
      }
      out.target = SLOT_P0 + dst;
      out.status = ST_OK;
      probe(PR_MSG_RECV);
      return true;
    }
    case OP_X_PIN: {
      if (!c.pins || c.task < 0) return true;
      if (c.pins->size() >= 12) {
        sim::Exempt e;
        c.pins->erase(c.pins->begin());
      }
      // a: object class and slot, b: accessor, c: index
      uint32_t cls = op.a % 3;
      const T *ptr = nullptr;
      int slot = -1;
      uint32_t via = op.b % 4;
      if (cls == 0) {
        // grid: private + shared
        size_t n1 = P.g.size(), n = n1 + c.w.shared.g.size();
        const Grid *g = nullptr;
        for (size_t k = 0; k < n && !g; k++) {
          size_t i = (op.d + k) % n;
          const std::optional<Grid> &o = i < n1 ? P.g[i] : c.w.shared.g[i - n1];
          if (o) {
            g = &*o;
            slot = i < n1 ? SLOT_G0 + (int)i : -1;
          }
        }
        if (!g) return true;
        libcall(out, [&] {
          size_t sz = g->size();
          switch (via) {
            case 0: ptr = &g->front(); break;
            case 1: ptr = &g->back(); break;
            case 2: ptr = &g->at(op.c % sz); break;
            default: ptr = &*(g->begin() + (long)(op.c % sz)); break;
          }
        });
      } else if (cls == 1) {
        size_t n1 = P.s.size(), n = n1 + c.w.shared.s.size();
        const Support *sp = nullptr;
        for (size_t k = 0; k < n && !sp; k++) {
          size_t i = (op.d + k) % n;
          const std::optional<Support> &o = i < n1 ? P.s[i] : c.w.shared.s[i - n1];
          if (o && !o->empty()) {
            sp = &*o;
            slot = i < n1 ? SLOT_S0 + (int)i : -1;
          }
        }
        if (!sp) return true;
        libcall(out, [&] {
          size_t sz = sp->size();
          switch (via) {
            case 0: ptr = &sp->front(); break;
            case 1: ptr = &sp->back(); break;
            case 2: ptr = &sp->at(op.c % sz); break;
            default: ptr = &(*sp)[op.c % sz]; break;
          }
        });
      } else {
        size_t n1 = P.p.size(), n = n1 + c.w.shared.p.size();
        const SpV *sv = nullptr;
        for (size_t k = 0; k < n && !sv; k++) {
          size_t i = (op.d + k) % n;
          const std::optional<SpV> &o = i < n1 ? P.p[i] : c.w.shared.p[i - n1];
          bool nonempty = o && std::visit([](const auto &x) { sim::Exempt e; return !x.getSupport().empty(); }, *o);
          if (nonempty) {
            sv = &*o;
            slot = i < n1 ? SLOT_P0 + (int)i : -1;
          }
        }
        if (!sv) return true;
        std::visit(
            [&](const auto &x) {
              libcall(out, [&] {
                switch (via) {
                  case 0: ptr = &x.front(); break;
                  case 1: ptr = &x.back(); break;
                  case 2: ptr = &x.getSupport().getGrid().front(); break;
                  default: ptr = &*x.getSupport().begin(); break;
                }
              });
            },
            *sv);
      }
      if (ptr && out.status == ST_OK) {
        sim::Exempt e;
        c.pins->push_back(Pin{slot, ptr, ptr->bits(), (int)(cls * 4 + via)});
        out.obs = hmix(out.obs, ptr->bits());
        probe(PR_PIN_TAKEN);
      }
      return true;
    }
    default:
      return false;
  }
}

}  // namespace simw
