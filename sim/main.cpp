// sim — deterministic simulator for okruz/BSplinebasis (see DESIGN.md).
//   sim --check C10 --tier quick --seed S --runs A:B     batch of runs
//   sim --check C10 --tier quick --seed S --dump-plan I  print the plan of run I
//   sim --replay FILE [--record-switches]                 execute an explicit plan
//   sim --selftest                                        seam self-test
#include <sys/mman.h>
#include <sys/wait.h>
#include <unistd.h>

#include <cstdio>
#include <cstdlib>
#include <cstring>
#include <fstream>
#include <sstream>

#include "run.h"

using namespace simw;
namespace simw { uint64_t *probe_array(); }

static uint64_t check_hash(const std::string &s) {
  uint64_t h = 1469598103934665603ull;
  for (char c : s) h = (h ^ (unsigned char)c) * 1099511628211ull;
  return h;
}

static uint64_t run_seed(uint64_t base, const std::string &check, uint64_t i) {
  return sim::mix3(base, check_hash(check), i) & 0x7fffffffffffffffull;
}

static void emit(const char *tag, const sj::Value &v) {
  std::string s = v.str();
  printf("%s %s\n", tag, s.c_str());
  fflush(stdout);
}

// tag-scheme self test (DESIGN §2.3): which detections work in this build
__attribute__((noinline)) static uint32_t default_init_tag() {
  T x;
  asm volatile("" : : "r"(&x) : "memory");
  return x.raw_tag();
}
int main(int argc, char **argv) {
  sim::process_init();
  sim::set_op_namer(simw::op_name);
  std::string check = "C10", tier = "quick", replay, runs;
  uint64_t seed = 1;
  long dump = -1;
  bool record = false, selftest = false;
  for (int i = 1; i < argc; i++) {
    std::string a = argv[i];
    auto next = [&]() -> std::string { return i + 1 < argc ? argv[++i] : ""; };
    if (a == "--check") check = next();
    else if (a == "--tier") tier = next();
    else if (a == "--seed") seed = strtoull(next().c_str(), nullptr, 10);
    else if (a == "--runs") runs = next();
    else if (a == "--dump-plan") dump = atol(next().c_str());
    else if (a == "--replay") replay = next();
    else if (a == "--record-switches") record = true;
    else if (a == "--selftest") selftest = true;
    else {
      fprintf(stderr, "unknown argument %s\n", a.c_str());
      _exit(2);
    }
  }
  Profile prof;
  prof.check = check;
  prof.thorough = tier == "thorough";

  if (selftest) {
    sj::Value v = sj::Value::Obj();
    uint32_t d = default_init_tag();
    std::array<T, 2> z{};
    v.set("flavour", sj::Value::Str(sim::flavour_name()));
    v.set("exact", sj::Value::Bool(sim::kExact));
    v.set("maxord", sj::Value::Int((int)MAXORD));
    v.set("default_init_tag_is_unset", sj::Value::Bool(d == sim::TAG_UNSET));
    v.set("value_init_tag_is_unset", sj::Value::Bool(z[0].raw_tag() == sim::TAG_UNSET));
    v.set("library_thread_locals_virtualised", sj::Value::Int(sim::tls_virtualised_variables()));
    emit("SELFTEST", v);
    fflush(stdout);
    _exit(0);
  }

  if (!replay.empty()) {
    std::ifstream in(replay);
    std::stringstream ss;
    ss << in.rdbuf();
    sj::Parser ps(ss.str());
    sj::Value v = ps.parse();
    const sj::Value *pv = v.get("plan");
    Plan plan;
    std::string err;
    if (!ps.ok || !plan_from_json(pv ? *pv : v, plan, err)) {
      fprintf(stderr, "cannot read plan from %s: %s\n", replay.c_str(), err.c_str());
      _exit(2);
    }
    sim::set_death_context(0, "replay");
    printf("BEGIN 0\n");
    fflush(stdout);
    Counters cnt;
    RunOptions opt;
    opt.record_switches = record;
    RunResult r = run_plan(plan, opt, cnt);
    emit("RUN", result_to_json(r, 0, plan.seed));
    emit("SUMMARY", counters_to_json(cnt));
    fflush(stdout);
    fflush(stderr);
    _exit(r.status == "violation" ? 1 : 0);
  }

  if (dump >= 0) {
    Plan plan = make_plan(prof, run_seed(seed, check, (uint64_t)dump));
    sj::Value v = sj::Value::Obj();
    v.set("flavour", sj::Value::Str(sim::flavour_name()));
    v.set("exact", sj::Value::Bool(sim::kExact));
    v.set("plan", plan_to_json(plan));
    emit("PLAN", v);
    _exit(0);
  }

  long a = 0, b = 0;
  if (sscanf(runs.c_str(), "%ld:%ld", &a, &b) != 2 || b < a) {
    fprintf(stderr, "need --runs A:B\n");
    _exit(2);
  }
  // One child process per run: every world starts from an image in which no
  // library code has run yet (cold statics, no inheritance between runs), and a
  // run that dies takes only itself down - the loop goes on with the next one.
  struct BatchShared {
    Counters cnt;
    uint64_t probes[256];
  };
  bool isolate = getenv("SIM_NO_ISOLATE") == nullptr;
  set_isolate(isolate);
  BatchShared *sh = static_cast<BatchShared *>(
      mmap(nullptr, sizeof(BatchShared), PROT_READ | PROT_WRITE, MAP_SHARED | MAP_ANONYMOUS, -1, 0));
  if (sh == MAP_FAILED) {
    fprintf(stderr, "mmap failed\n");
    _exit(2);
  }
  new (sh) BatchShared();
  Counters cnt;
  RunOptions opt;
  for (long i = a; i < b; i++) {
    uint64_t s = run_seed(seed, check, (uint64_t)i);
    sim::set_death_context(i, "run");
    printf("BEGIN %ld\n", i);
    fflush(stdout);
    fflush(stderr);
    pid_t pid = isolate ? fork() : 0;
    if (pid < 0) {
      fprintf(stderr, "fork failed\n");
      _exit(2);
    }
    if (pid == 0) {
      Plan plan = make_plan(prof, s);
      Counters local;
      RunResult r = run_plan(plan, opt, local);
      emit("RUN", result_to_json(r, i, s));
      if (isolate) {
        add_counters_public(sh->cnt, local);
        uint64_t *pa = probe_array();
        for (int k = 0; k < 256; k++) sh->probes[k] += pa[k];
        fflush(stdout);
        fflush(stderr);
        _exit(0);
      }
      add_counters_public(cnt, local);
    } else {
      int st = 0;
      while (waitpid(pid, &st, 0) < 0) {
      }
    }
    if ((i - a) % 256 == 255) {
      if (isolate) {
        cnt = sh->cnt;
        uint64_t *pa = probe_array();
        for (int k = 0; k < 256; k++) pa[k] = sh->probes[k];
        new (sh) BatchShared();
      }
      emit("SUMMARY", counters_to_json(cnt));
      cnt = Counters();
      uint64_t *pa = probe_array();
      for (int k = 0; k < 256; k++) pa[k] = 0;
    }
  }
  if (isolate) {
    cnt = sh->cnt;
    uint64_t *pa = probe_array();
    for (int k = 0; k < 256; k++) pa[k] = sh->probes[k];
  }
  emit("SUMMARY", counters_to_json(cnt));
  printf("END\n");
  fflush(stdout);
  fflush(stderr);
  _exit(0);
}
