// Shared templates for the operation executors.
#pragma once
#include "world.h"

namespace simw {

template <size_t k>
void store_result(ExecCtx &c, int dst, Sp<k> &&r) {
  c.out.obs = hmix(c.out.obs, hash_spline(r));
  {
    sim::Exempt e;
    check_spline_invariants(r, c.out.viol, "result");
    for (auto &v : c.out.viol)
      if (v.site.empty()) v.site = op_name(c.op.kind);
  }
  if constexpr (k <= MAXORD) {
    sim::Exempt e;
    c.pool.p[dst % NP].emplace(std::in_place_type<Sp<k>>, std::move(r));
    c.out.target = SLOT_P0 + dst % NP;
  } else {
    // order above the stored bound: checked, then dropped inside a library
    // region (its destruction is library code)
    sim::LibRegion lr;
    Sp<k> drop(std::move(r));
    (void)drop;
  }
}

// Operand value category. The objects of a task's private pool are non-const
// objects; a caller may hand them to the library as const lvalues, as
// non-const lvalues (`auto r = op * s;`) or as xvalues (`std::move(a) + b`).
// Overload resolution can differ between the three (a forwarding-reference
// overload is an exact match for `S &` and beats `const S &`; an
// rvalue-qualified overload may pilfer). Shared-pool objects are const objects
// and always passed as such. The category of a private operand is a function
// of the operation's arguments (part of the plan, shrinks with it).
//   0 const lvalue, 1 non-const lvalue, 2 xvalue (the operand may then be left
//   in any *valid* state: it is recorded as pilferable, C10 still judges it)
enum ValueCat : int { CAT_CONST = 0, CAT_LVALUE = 1, CAT_XVALUE = 2 };
inline int private_sp_slot(const ExecCtx &c, const void *obj) {
  for (int i = 0; i < NP; i++)
    if (c.pool.p[i] && static_cast<const void *>(&*c.pool.p[i]) == obj) return SLOT_P0 + i;
  return -1;
}
inline int value_cat(ExecCtx &c, const void *obj, unsigned which, bool allow_xvalue) {
  const char *p = static_cast<const char *>(obj), *lo = reinterpret_cast<const char *>(&c.pool);
  if (p < lo || p >= lo + sizeof(Pool)) return CAT_CONST;
  uint64_t h = sim::mix64(((uint64_t)c.op.a << 48) ^ ((uint64_t)c.op.b << 32) ^ ((uint64_t)c.op.c << 16) ^ c.op.d ^ 0x1fULL);
  unsigned x = (unsigned)((h >> (8 * which)) & 7);  // 0..3 const, 4..5 lvalue, 6..7 xvalue
  int cat = x < 4 ? CAT_CONST : x < 6 ? CAT_LVALUE : CAT_XVALUE;
  if (cat == CAT_XVALUE) {
    int slot = allow_xvalue ? private_sp_slot(c, obj) : -1;
    if (slot < 0) return CAT_LVALUE;
    (c.out.pilfer1 < 0 ? c.out.pilfer1 : c.out.pilfer2) = slot;
  }
  return cat;
}
#define SIM_FWD(x) std::forward<decltype(x)>(x)
// lvalue categories only (for types whose move operations are deleted, and for
// operands an operation never takes as rvalues)
template <class X, class F>
void as_lv(int cat, const X &x, F &&f) {
  if (cat == CAT_LVALUE) {
    probe(PR_NONCONST_OPERAND);
    f(const_cast<X &>(x));
  } else {
    f(x);
  }
}
template <class X, class F>
void as_cat(int cat, const X &x, F &&f) {
  if (cat == CAT_XVALUE) {
    probe(PR_XVALUE_OPERAND);
    f(std::move(const_cast<X &>(x)));
  } else if (cat == CAT_LVALUE) {
    probe(PR_NONCONST_OPERAND);
    f(const_cast<X &>(x));
  } else {
    f(x);
  }
}

inline bool fault_fired() {
  return sim::g_cur->fired_alloc || sim::g_cur->fired_scalar || sim::g_cur->fired_cb;
}

inline bool is_injected_status(int st) {
  return st == ST_BADALLOC || st == ST_SCALARFAULT || st == ST_CALLBACK;
}

// C08 bookkeeping for an entry point that took several splines.
//   differ      : the grids of the arguments differ logically
//   must_refuse : the property demands a refusal for this call
//   distinct_eq : grids are equal but held in distinct objects
inline void c08_check(ExecCtx &c, bool differ, bool must_refuse,
                      bool distinct_eq, const char *site, bool any_bspline_ok = false) {
  using bspline::exceptions::ErrorCode;
  c.out.multi_grid_call = true;
  if (differ && must_refuse) {
    probe(PR_XGRID_CALL);
    c.out.expect_refusal = true;
    bool refused = c.out.status == ST_BSPLINE &&
                   (any_bspline_ok || c.out.code == (int)ErrorCode::DIFFERING_GRIDS);
    if (refused) {
      probe(PR_XGRID_REFUSED);
    } else if (fault_fired() && is_injected_status(c.out.status)) {
      // the injected fault pre-empted the refusal: accepted
    } else if (c.out.status == ST_OK) {
      add_violation(c, "C08", "computed-across-grids",
                    std::string(site) + " returned a result although the grids differ", site);
    } else {
      add_violation(c, "C08", "wrong-refusal",
                    std::string(site) + " failed with " + status_name(c.out.status) +
                        " code " + std::to_string(c.out.code) +
                        " instead of the differing-grids exception", site);
    }
  } else if (!differ && distinct_eq) {
    probe(PR_EQGRID_DISTINCT);
    if (c.out.status == ST_BSPLINE && c.out.code == (int)ErrorCode::DIFFERING_GRIDS)
      add_violation(c, "C08", "equal-grids-refused",
                    std::string(site) + " refused grids holding the same points", site);
  }
}

// C08 coverage matrix: entry point x way the two grids differ
enum Entry {
  E_ADD, E_SUB, E_MUL, E_IADD, E_ISUB, E_LINCOMB, E_BILIN, E_NUMINT, E_APPLY_FACTOR, E_LIN_FACTOR,
  E_BILIN_FACTOR, E_HELD_APPLY, E_GENERATOR, E_N
};
enum DiffKind { D_EQUAL_DISTINCT, D_SAME_OBJECT, D_MOVED, D_NUDGED, D_EXTRA_FRONT, D_EXTRA_BACK, D_EXTRA_INSIDE, D_OTHER, D_N };
constexpr int PR_MATRIX0 = 64;
const char *entry_name(int e);
const char *diff_name(int d);
inline int grid_diff_kind(const Grid &a, const Grid &b) {
  sim::Exempt e;
  auto da = a.getData(), db = b.getData();
  if (da == db) return D_SAME_OBJECT;
  const std::vector<T> *x = da.get(), *y = db.get();
  if (x->size() == y->size()) {
    size_t nd = 0;
    bool tiny = false;
    for (size_t i = 0; i < x->size(); i++)
      if (!((*x)[i].raw() == (*y)[i].raw())) {
        nd++;
        Val d = (*x)[i].raw() - (*y)[i].raw();
        if (d < Val(0)) d = -d;
        tiny = d < Val(1) / Val(1048576);
      }
    return nd == 0 ? D_EQUAL_DISTINCT : nd == 1 ? (tiny ? D_NUDGED : D_MOVED) : D_OTHER;
  }
  if (x->size() > y->size()) std::swap(x, y);  // x is the shorter one
  if (y->size() != x->size() + 1) return D_OTHER;
  size_t i = 0;
  while (i < x->size() && (*x)[i].raw() == (*y)[i].raw()) i++;
  // y[i] is the extra point; the rest has to match
  for (size_t k = i; k < x->size(); k++)
    if (!((*x)[k].raw() == (*y)[k + 1].raw())) return D_OTHER;
  return i == 0 ? D_EXTRA_FRONT : i == x->size() ? D_EXTRA_BACK : D_EXTRA_INSIDE;
}
inline void c08_note(int entry, const Grid &a, const Grid &b) {
  probe(PR_MATRIX0 + entry * D_N + grid_diff_kind(a, b));
}

template <class X, class Y>
inline bool same_grid_object(const X &x, const Y &y) {
  sim::Exempt e;
  return x.getSupport().getGrid().getData() == y.getSupport().getGrid().getData();
}

// placement probes for a pair of supports on one grid
inline void probe_placement(const Support &a, const Support &b) {
  sim::Exempt e;
  size_t as = a.getStartIndex(), ae = a.getEndIndex();
  size_t bs = b.getStartIndex(), be = b.getEndIndex();
  bool ai = ae > as + 1, bi = be > bs + 1;
  if (!ai || !bi) { probe(PR_PLACE_EMPTY); return; }
  if (as == bs && ae == be) { probe(PR_PLACE_IDENT); return; }
  if ((as <= bs && be <= ae) || (bs <= as && ae <= be)) { probe(PR_PLACE_NESTED); return; }
  size_t lo = std::max(as, bs), hi = std::min(ae, be);
  if (hi > lo + 1) probe(PR_PLACE_PARTIAL);
  else if (hi == lo + 1) probe(PR_PLACE_TOUCH);
  else probe(PR_PLACE_GAP);
}

}  // namespace simw
