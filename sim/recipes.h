// Operator expression recipes (DESIGN §2.4): each builds one expression
// template from the public operator algebra and hands it to `f`.
#pragma once
#include "ops_util.h"

namespace simw {

namespace ops = bspline::operators;

constexpr int N_RECIPES = 18;
constexpr int FIRST_FACTOR_RECIPE = 12;  // recipes >= this hold a spline factor

inline bool recipe_has_factor(int r) { return r % N_RECIPES >= FIRST_FACTOR_RECIPE; }

// recipes without a spline factor
template <class F>
void with_plain_recipe(int r, const T &s, F &&f) {
  using namespace bspline::operators;
  switch (r % FIRST_FACTOR_RECIPE) {
    case 0: f(IdentityOperator{}); break;
    case 1: f(Dx<1>{}); break;
    case 2: f(Dx<2>{}); break;
    case 3: f(X<1>{}); break;
    case 4: f(X<2>{}); break;
    case 5: f(s * Dx<1>{}); break;
    case 6: f(X<1>{} * Dx<1>{} - Dx<1>{} * X<1>{}); break;
    case 7: f((Dx<2>{} + X<1>{}) / s); break;
    case 8: f(-Dx<1>{} + s); break;
    case 9: f(s - X<1>{}); break;
    case 10: f(2.5 * Dx<1>{} * X<1>{}); break;
    default: f(Dx<3>{}); break;
  }
}

// recipes holding a spline factor v (order <= MAXFACT); `s` is a non-zero
// scalar. The factor also appears underneath scalar wrappers (scalar * operator,
// unary minus, operator / scalar): every wrapper has to pass the grid check on.
template <class V, class F>
void with_factor_recipe(int r, const V &v, const T &s, F &&f) {
  using namespace bspline::operators;
  switch ((r % N_RECIPES) - FIRST_FACTOR_RECIPE) {
    case 0: f(SplineOperator{v}); break;
    case 1: f(SplineOperator{v} * Dx<1>{}); break;
    case 2: f(X<1>{} * SplineOperator{v} + IdentityOperator{}); break;
    case 3: f(s * SplineOperator{v}); break;
    case 4: f(-SplineOperator{v}); break;
    default: f(SplineOperator{v} / s + Dx<1>{}); break;
  }
}

}  // namespace simw
