// Spline arithmetic with the C03 reference model and the C08 oracle.
#include "ops_util.h"

namespace simw {

// a pristine object with the same window and coefficients on grid object g
template <class S>
static S fresh_on_grid(const S &s, const Grid &g) {
  sim::Exempt e;
  return S(Support(g, s.getSupport().getStartIndex(), s.getSupport().getEndIndex()), s.getCoefficients());
}

template <class R>
static void c03_compare(ExecCtx &c, const R &res, const Fn &expect, const char *cls,
                        const char *site) {
#ifdef SIM_EXACT
  probe(PR_C03_COMPARED);
  Fn got = fn_of(res);
  if (!fn_equal(got, expect))
    add_violation(c, "C03", cls, std::string(site) + ": expected " + fn_str(expect) + " got " + fn_str(got), site);
#else
  (void)c; (void)res; (void)expect; (void)cls; (void)site;
#endif
}

// C03: a valid arithmetic call on one grid has to deliver its result; the only
// exceptions that may escape are injected faults and the exact field's own
// division by zero.
static void c03_must_succeed(ExecCtx &c, bool valid, const char *site) {
  if (!valid) return;
  if (c.out.status == ST_BSPLINE || c.out.status == ST_OTHER_EXC) {
    if (fault_fired()) return;
    add_violation(c, "C03", "valid-call-threw",
                  std::string(site) + " threw " + status_name(c.out.status) + " (code " + std::to_string(c.out.code) +
                      ") for operands on one grid",
                  site);
  }
}

bool exec_arith(ExecCtx &c) {
  const Op &op = c.op;
  Pool &P = c.pool;
  Outcome &out = c.out;
  switch (op.kind) {
    case OP_P_ADD:
    case OP_P_SUB:
    case OP_P_MUL: {
      const SpV *a = ref_sp(c, op.b), *b = ref_sp(c, op.c);
      if (!a || !b) return true;
      int dst = op.a % NP;
      std::visit(
          [&](const auto &x, const auto &y) {
            using X = std::decay_t<decltype(x)>;
            using Y = std::decay_t<decltype(y)>;
            constexpr size_t kx = X::spline_order, ky = Y::spline_order;
            bool same = grids_logically_equal(x.getSupport().getGrid(), y.getSupport().getGrid());
            bool distinct = same && !same_grid_object(x, y);
            if (same) probe_placement(x.getSupport(), y.getSupport());
            if (kx != ky) probe(PR_MIXED_ORDER);
            const char *site = op.kind == OP_P_ADD ? "Spline::operator+" : op.kind == OP_P_SUB ? "Spline::operator-" : "Spline::operator*";
#ifdef SIM_EXACT
            Fn fx = fn_of(x), fy = fn_of(y);
#endif
            auto finish = [&](auto &res) {
              c08_note(op.kind == OP_P_ADD ? E_ADD : op.kind == OP_P_SUB ? E_SUB : E_MUL, x.getSupport().getGrid(),
                       y.getSupport().getGrid());
              c08_check(c, !same, true, distinct, site);
              c03_must_succeed(c, same, site);
              if (!res) return;
#ifdef SIM_EXACT
              if (same) {
                Fn expect = op.kind == OP_P_ADD   ? fn_add(fx, fy)
                            : op.kind == OP_P_SUB ? fn_add(fx, fn_scale(fy, Val(-1)))
                                                  : fn_mul(fx, fy);
                c03_compare(c, *res, expect,
                            op.kind == OP_P_ADD ? "sum-wrong" : op.kind == OP_P_SUB ? "difference-wrong" : "product-wrong",
                            site);
              }
#endif
              if (distinct) {
                // C08: equal grids in distinct objects are the same grid. Compared on
                // pristine copies of both operands, so that nothing but the identity of
                // the second grid object differs between the two computations.
                sim::Exempt e;
                try {
                  const Grid &gx = x.getSupport().getGrid();
                  X xf = fresh_on_grid(x, gx);
                  Y yo = fresh_on_grid(y, y.getSupport().getGrid());
                  Y ys = fresh_on_grid(y, gx);
                  uint64_t h1, h2;
                  if (op.kind == OP_P_ADD) { h1 = hash_spline_wc(xf + yo); h2 = hash_spline_wc(xf + ys); }
                  else if (op.kind == OP_P_SUB) { h1 = hash_spline_wc(xf - yo); h2 = hash_spline_wc(xf - ys); }
                  else { h1 = hash_spline_wc(xf * yo); h2 = hash_spline_wc(xf * ys); }
                  probe(PR_TWIN_COMPARED);
                  if (h1 != h2)
                    add_violation(c, "C08", "equal-grid-result-differs",
                                  std::string(site) + ": result with distinct equal grids differs from shared instance", site);
                } catch (const std::exception &) {
                }
              }
              store_result(c, dst, std::move(*res));
            };
            sim::g_cur->note = same ? 2 : 1;
            const bool xv_ok = same && (const void *)a != (const void *)b;
            const int cx = value_cat(c, a, 0, xv_ok), cy = value_cat(c, b, 1, xv_ok);
            if (op.kind == OP_P_MUL) {
              std::optional<Sp<kx + ky>> res;
              libcall(out, [&] {
                as_cat(cx, x, [&](auto &&xx) { as_cat(cy, y, [&](auto &&yy) { res.emplace(SIM_FWD(xx) * SIM_FWD(yy)); }); });
              });
              finish(res);
            } else {
              std::optional<Sp<(kx > ky ? kx : ky)>> res;
              libcall(out, [&] {
                as_cat(cx, x, [&](auto &&xx) {
                  as_cat(cy, y, [&](auto &&yy) {
                    if (op.kind == OP_P_ADD) res.emplace(SIM_FWD(xx) + SIM_FWD(yy));
                    else res.emplace(SIM_FWD(xx) - SIM_FWD(yy));
                  });
                });
              });
              finish(res);
            }
          },
          *a, *b);
      return true;
    }
    case OP_P_IADD:
    case OP_P_ISUB: {
      int slot = -1;
      SpV *t = own_sp(c, op.a, &slot);
      if (!t) return true;
      const SpV *b = ref_sp_maxorder(c, op.b, t->index());
      if (!b) return true;
      out.target = SLOT_P0 + slot;
      if (b == t) probe(PR_SELF_IADD);
      std::visit(
          [&](auto &x, const auto &y) {
            using X = std::decay_t<decltype(x)>;
            using Y = std::decay_t<decltype(y)>;
            if constexpr (Y::spline_order <= X::spline_order) {
              bool same = grids_logically_equal(x.getSupport().getGrid(), y.getSupport().getGrid());
              bool distinct = same && !same_grid_object(x, y);
              if (same) probe_placement(x.getSupport(), y.getSupport());
              if (X::spline_order != Y::spline_order) probe(PR_MIXED_ORDER);
              const char *site = op.kind == OP_P_IADD ? "Spline::operator+=" : "Spline::operator-=";
#ifdef SIM_EXACT
              Fn expect = op.kind == OP_P_IADD ? fn_add(fn_of(x), fn_of(y))
                                               : fn_add(fn_of(x), fn_scale(fn_of(y), Val(-1)));
#endif
              bool twin_differs = false, have_twin = false;
              if (distinct && (const void *)&x != (const void *)&y) {
                sim::Exempt e;
                try {
                  const Grid &gx = x.getSupport().getGrid();
                  X x1 = fresh_on_grid(x, gx), x2 = fresh_on_grid(x, gx);
                  Y yo = fresh_on_grid(y, y.getSupport().getGrid());
                  Y ys = fresh_on_grid(y, gx);
                  if (op.kind == OP_P_IADD) { x1 += yo; x2 += ys; } else { x1 -= yo; x2 -= ys; }
                  twin_differs = hash_spline_wc(x1) != hash_spline_wc(x2);
                  have_twin = true;
                } catch (const std::exception &) {
                }
              }
              int dk = grid_diff_kind(x.getSupport().getGrid(), y.getSupport().getGrid());
              sim::g_cur->note = same ? 2 : 1;
              const bool alias = (const void *)&x == (const void *)&y;
              const int cy = alias ? (int)CAT_CONST : value_cat(c, b, 1, same);
              libcall(out, [&] {
                as_cat(cy, y, [&](auto &&yy) {
                  if (op.kind == OP_P_IADD) x += SIM_FWD(yy);
                  else x -= SIM_FWD(yy);
                });
              });
              probe(PR_MATRIX0 + (op.kind == OP_P_IADD ? E_IADD : E_ISUB) * D_N + dk);
              c08_check(c, !same, true, distinct, site);
              c03_must_succeed(c, same, site);
              if (out.status == ST_OK) {
                out.obs = hmix(out.obs, hash_spline(x));
#ifdef SIM_EXACT
                if (same) c03_compare(c, x, expect, op.kind == OP_P_IADD ? "sum-wrong" : "difference-wrong", site);
#endif
                if (have_twin) {
                  probe(PR_TWIN_COMPARED);
                  if (twin_differs)
                    add_violation(c, "C08", "equal-grid-result-differs",
                                  std::string(site) + ": result with distinct equal grids differs from shared instance", site);
                }
              }
            }
          },
          *t, *b);
      return true;
    }
    case OP_P_SCALE:
    case OP_P_LSCALE:
    case OP_P_DIV:
    case OP_P_NEG: {
      const SpV *a = ref_sp(c, op.b);
      if (!a) return true;
      int dst = op.a % NP;
      T s = scalar_choice(op.c);
      std::visit(
          [&](const auto &x) {
            using X = std::decay_t<decltype(x)>;
            std::optional<X> res;
            const char *site = op.kind == OP_P_SCALE ? "Spline::operator*(scalar)"
                               : op.kind == OP_P_LSCALE ? "operator*(scalar, Spline)"
                               : op.kind == OP_P_DIV   ? "Spline::operator/(scalar)"
                                                       : "Spline::operator-()";
#ifdef SIM_EXACT
            Fn fx = fn_of(x);
#endif
            sim::g_cur->note = 2;
            const int cx = value_cat(c, a, 0, true);
            libcall(out, [&] {
              as_cat(cx, x, [&](auto &&xx) {
                switch (op.kind) {
                  case OP_P_SCALE: res.emplace(SIM_FWD(xx) * s); break;
                  case OP_P_LSCALE: res.emplace(s * SIM_FWD(xx)); break;
                  case OP_P_DIV: res.emplace(SIM_FWD(xx) / s); break;
                  default: res.emplace(-SIM_FWD(xx)); break;
                }
              });
            });
            c03_must_succeed(c, true, site);
            if (res) {
#ifdef SIM_EXACT
              Val f = op.kind == OP_P_NEG ? Val(-1) : op.kind == OP_P_DIV ? Val(Val(1) / s.raw()) : s.raw();
              c03_compare(c, *res, fn_scale(fx, f), "scalar-multiple-wrong", site);
#else
              (void)site;
#endif
              store_result(c, dst, std::move(*res));
            }
          },
          *a);
      return true;
    }
    case OP_P_ISCALE:
    case OP_P_IDIV: {
      int slot = -1;
      SpV *t = own_sp(c, op.a, &slot);
      if (!t) return true;
      out.target = SLOT_P0 + slot;
      T s = scalar_choice(op.c);
      std::visit(
          [&](auto &x) {
            using X = std::decay_t<decltype(x)>;
            const char *site = op.kind == OP_P_ISCALE ? "Spline::operator*=" : "Spline::operator/=";
            // the scalar is passed by reference: one call in seven hands in one
            // of the target's own coefficients (its value at the time of the
            // call is the scalar the property speaks about)
            const T *sp = &s;
            if (op.c % 7 == 6) {
              sim::Exempt e;
              const auto &cs = x.getCoefficients();
              if (!cs.empty()) {
                sp = &cs[op.d % cs.size()][(op.d / 8) % (X::spline_order + 1)];
                probe(PR_ALIAS_SCALAR);
              }
            }
#ifdef SIM_EXACT
            Fn fx = fn_of(x);
            Val sval = sp->raw();
#endif
            sim::g_cur->note = 2;
            libcall(out, [&] {
              if (op.kind == OP_P_ISCALE) x *= *sp;
              else x /= *sp;
            });
            c03_must_succeed(c, true, site);
            if (out.status == ST_OK) {
              out.obs = hmix(out.obs, hash_spline(x));
#ifdef SIM_EXACT
              Val f = op.kind == OP_P_IDIV ? Val(Val(1) / sval) : sval;
              c03_compare(c, x, fn_scale(fx, f), "scalar-multiple-wrong", site);
#else
              (void)site;
#endif
            }
          },
          *t);
      return true;
    }
    case OP_P_LINCOMB: {
      const SpV *first = ref_sp(c, op.b);
      if (!first) return true;
      int dst = op.a % NP;
      size_t want = 1 + op.c % 4;
      std::visit(
          [&](const auto &f0) {
            using S = std::decay_t<decltype(f0)>;
            std::vector<S> sv;
            std::vector<T> cs;
            bool differ = false, distinct = false;
            {
              sim::Exempt e;
              Pool *sh = &P == &c.w.shared ? nullptr : &c.w.shared;
              size_t n1 = P.p.size(), n = n1 + (sh ? sh->p.size() : 0);
              sv.push_back(f0);
              for (size_t k = 1; k < 2 * n && sv.size() < want; k++) {
                size_t i = (op.b + k * (1 + op.d % 3)) % n;
                const std::optional<SpV> &o = i < n1 ? P.p[i] : sh->p[i - n1];
                if (o && o->index() == S::spline_order) sv.push_back(std::get<S>(*o));
              }
              sim::Rng r(sim::mix3(op.d, 0x11c0, 0));
              for (size_t i = 0; i < sv.size(); i++) cs.push_back(scalar_choice(r.below(12)));
              for (size_t i = 1; i < sv.size(); i++) {
                c08_note(E_LINCOMB, sv[0].getSupport().getGrid(), sv[i].getSupport().getGrid());
                if (!grids_logically_equal(sv[0].getSupport().getGrid(), sv[i].getSupport().getGrid())) differ = true;
                else if (!same_grid_object(sv[0], sv[i])) distinct = true;
              }
              if (sv.size() > 1) {
                bool allsame = true;
                for (size_t i = 1; i < sv.size(); i++)
                  if (sv[i].getSupport().getStartIndex() != sv[0].getSupport().getStartIndex()) allsame = false;
                if (!allsame && !differ) probe_placement(sv[0].getSupport(), sv[1].getSupport());
              }
            }
            // occasionally a size mismatch (a failing call; the decision is C11's)
            bool mismatch = (op.d % 13) == 0;
            if (mismatch) {
              sim::Exempt e;
              cs.pop_back();
            }
#ifdef SIM_EXACT
            Fn expect;
            if (!differ && !mismatch)
              for (size_t i = 0; i < sv.size(); i++) expect = fn_add(expect, fn_scale(fn_of(sv[i]), cs[i].raw()));
#endif
            std::optional<S> res;
            if (!mismatch) sim::g_cur->note = differ ? 1 : 2;
            libcall(out, [&] {
              if (op.d % 2) res.emplace(bspline::linearCombination(cs, sv));
              else res.emplace(bspline::linearCombination(cs.begin(), cs.end(), sv.begin(), sv.end()));
            });
            if (!mismatch) c08_check(c, differ, true, distinct && !differ, "linearCombination");
            c03_must_succeed(c, !differ && !mismatch, "linearCombination");
            if (res) {
#ifdef SIM_EXACT
              if (!differ && !mismatch) c03_compare(c, *res, expect, "linear-combination-wrong", "linearCombination");
#endif
              if (!differ && distinct && !mismatch) {
                sim::Exempt e;
                try {
                  std::vector<S> own, shared;
                  const Grid &g0 = sv[0].getSupport().getGrid();
                  for (size_t i = 0; i < sv.size(); i++) {
                    own.push_back(fresh_on_grid(sv[i], sv[i].getSupport().getGrid()));
                    shared.push_back(fresh_on_grid(sv[i], g0));
                  }
                  probe(PR_TWIN_COMPARED);
                  if (hash_spline_wc(bspline::linearCombination(cs, own)) != hash_spline_wc(bspline::linearCombination(cs, shared)))
                    add_violation(c, "C08", "equal-grid-result-differs", "linearCombination", "linearCombination");
                } catch (const std::exception &) {
                }
              }
              store_result(c, dst, std::move(*res));
            }
            {
              sim::LibRegion lr;  // the caller's containers die in caller code
              sv.clear();
              cs.clear();
            }
          },
          *first);
      return true;
    }
    default:
      return false;
  }
}

}  // namespace simw
