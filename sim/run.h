// Executing a plan: world construction, task bodies, per-operation oracles,
// fault sweeps, canonical-schedule comparison (DESIGN §2.5, §3).
#pragma once
#include "world.h"

namespace simw {

struct Counters {
  uint64_t ops[OP_NKINDS] = {};
  uint64_t ops_status[ST_OTHER_EXC + 1] = {};
  uint64_t faults_attached[F_NKINDS] = {};
  uint64_t faults_fired[F_NKINDS] = {};
  uint64_t sweep_points[F_NKINDS] = {};
  uint64_t sweep_ops = 0;
  uint64_t steps = 0, switches = 0, switches_in_exception = 0;
  uint64_t yields[sim::Y_NKINDS] = {};
  uint64_t guard_inits = 0, guard_contended = 0, guard_aborts = 0;
  uint64_t blocked = 0;
  uint64_t runs = 0, runs_violation = 0, runs_deadlock = 0, runs_budget = 0;
  uint64_t runs_multi = 0, runs_sweep = 0, runs_faultfree = 0;
  uint64_t canonical_compared_ops = 0;
  uint64_t runs_fault_divergent = 0;
  uint64_t tsan_reports = 0;
  uint64_t leaked_blocks = 0;
  uint64_t policy_runs[5] = {};
};

struct RunResult {
  std::string status;  // ok | violation | deadlock | inconclusive
  std::vector<Violation> viol;
  uint64_t hash = 0;       // event-log hash (determinism audit)
  uint64_t sig = 0;        // (op kinds, fault kinds, switch sequence) signature
  uint64_t pool_state = 0; // abstract final pool state
  bool nontrivial = false;
  std::vector<sim::SwitchRec> switches;
  sim::SchedStats stats;
  std::string note;
};

struct RunOptions {
  bool record_switches = false;
  bool verbose = false;
};

RunResult run_plan(const Plan &plan, const RunOptions &opt, Counters &cnt);
void set_isolate(bool on);  // default on: every world in a pristine process image
void add_counters_public(Counters &a, const Counters &b);

sj::Value counters_to_json(const Counters &c);
sj::Value result_to_json(const RunResult &r, long run_index, uint64_t seed);

}  // namespace simw
